"""Monitors put on the real AutoCarver code from the harness (DESIGN 1.3).

* GroupedList class invariant (icontract) -- rides along in every check of every property.
* Coverage probe (sys.monitoring LINE events, disabled after first hit) restricted to AutoCarver files.
* Internal event log: wrappers on the carving search functions (diagnosis + trace checker input).
"""
import ast
import functools
import os
import sys

from . import env

STATS = {"gl_invariant_evals": 0, "gl_invariant_fired": 0}
GL_WITNESSES = []  # filled when the invariant is broken (recorded, never raised: the case decides)
EVENTS = []  # internal event log of the current case
WRAP_CALLS = {}  # wrapper name -> number of calls (0 => the wrapper was bypassed => inconclusive)
_installed = {"gl": False, "cov": False, "events": False}


class InvariantBroken(Exception):
    """Error type handed to icontract (the predicate records and returns True, so never raised)."""


def _k(v):
    if isinstance(v, float) and v != v:
        return ("nan",)
    return v


def gl_partition_problem(gl):
    """Returns None when `gl` is a consistent ordered partition, else a description."""
    if not hasattr(gl, "content"):
        return None
    leaders = list(gl)
    try:
        keys = [_k(x) for x in leaders]
        if len(set(keys)) != len(keys):
            return "duplicate leaders"
        ckeys = [_k(x) for x in gl.content.keys()]
        if set(keys) != set(ckeys) or len(ckeys) != len(keys):
            return "list elements differ from content keys"
        allv = [_k(v) for vs in gl.content.values() for v in vs]
        if len(set(allv)) != len(allv):
            return "groups overlap"
        for lead, vs in gl.content.items():
            if _k(lead) not in [_k(v) for v in vs]:
                return "leader outside its own group"
    except TypeError:
        return None  # unhashable members: outside the property's universe
    return None


def _gl_invariant(self):
    STATS["gl_invariant_evals"] += 1
    problem = gl_partition_problem(self)
    if problem is not None:
        STATS["gl_invariant_fired"] += 1
        if len(GL_WITNESSES) < 20:
            import traceback
            GL_WITNESSES.append({
                "problem": problem,
                "list": [repr(x) for x in list(self)],
                "content": {repr(k): [repr(x) for x in v] for k, v in self.content.items()},
                "stack": [ln.strip() for ln in traceback.format_stack()[-10:-3] if "AutoCarver" in ln],
            })
    return True


def install_grouped_list_invariant():
    if _installed["gl"]:
        return
    import icontract
    from AutoCarver.discretizers.utils import grouped_list as gl_mod
    icontract.invariant(_gl_invariant, error=InvariantBroken)(gl_mod.GroupedList)
    _installed["gl"] = True


# ------------------------------------------------------------------ coverage probe
COV_HITS = set()
_TOOL = 3


def install_coverage():
    if _installed["cov"]:
        return
    mon = sys.monitoring
    try:
        mon.use_tool_id(_TOOL, "verif-cov")
    except ValueError:
        return
    marker = os.sep + "AutoCarver" + os.sep
    root = os.path.realpath(env.REPO)

    def on_line(code, line):
        fn = code.co_filename
        if marker in fn and fn.startswith(root):
            COV_HITS.add((fn[len(root) + 1:], line))
        return mon.DISABLE

    mon.register_callback(_TOOL, mon.events.LINE, on_line)
    mon.set_events(_TOOL, mon.events.LINE)
    _installed["cov"] = True


_ranges_cache = {}


def function_ranges(relfile):
    """{qualified function name: (first line, last line)} of a repo file (anchors by name, not number)."""
    if relfile in _ranges_cache:
        return _ranges_cache[relfile]
    out = {}
    path = os.path.join(env.REPO, relfile)
    try:
        tree = ast.parse(open(path).read())
    except (OSError, SyntaxError):
        _ranges_cache[relfile] = out
        return out

    def visit(node, prefix):
        for ch in ast.iter_child_nodes(node):
            if isinstance(ch, (ast.FunctionDef, ast.AsyncFunctionDef)):
                body_start = ch.body[0].lineno
                # skip the docstring
                if isinstance(ch.body[0], ast.Expr) and isinstance(getattr(ch.body[0], "value", None), ast.Constant) \
                        and isinstance(ch.body[0].value.value, str) and len(ch.body) > 1:
                    body_start = ch.body[1].lineno
                out[prefix + ch.name] = (body_start, ch.end_lineno)
                visit(ch, prefix + ch.name + ".")
            elif isinstance(ch, ast.ClassDef):
                visit(ch, prefix + ch.name + ".")
    visit(tree, "")
    _ranges_cache[relfile] = out
    return out


def anchor_coverage(anchors):
    """anchors: list of (relfile, qualified function name). Returns {name: [lines hit, lines total-ish]}."""
    res = {}
    for relfile, fn in anchors:
        rng = function_ranges(relfile).get(fn)
        key = f"{relfile}:{fn}"
        if rng is None:
            res[key] = [0, 0]
            continue
        hit = sum(1 for (f, ln) in COV_HITS if f == relfile and rng[0] <= ln <= rng[1])
        res[key] = [hit, rng[1] - rng[0] + 1]
    return res


# ------------------------------------------------------------------ internal event log
def _count(name):
    WRAP_CALLS[name] = WRAP_CALLS.get(name, 0) + 1


def install_event_log():
    """Wraps the carving search internals; events are diagnostic + input of the offline trace checker."""
    if _installed["events"]:
        return
    from AutoCarver.carvers import base_carver as bc

    depth = {"cc": 0}
    orig_cc = bc.consecutive_combinations

    @functools.wraps(orig_cc)
    def cc(*a, **k):
        depth["cc"] += 1
        try:
            r = orig_cc(*a, **k)
        finally:
            depth["cc"] -= 1
        if depth["cc"] == 0:
            _count("consecutive_combinations")
            try:
                EVENTS.append({"ev": "consecutive_combinations", "k": len(a[0]), "max": a[1] if len(a) > 1 else k.get("max_group_size"), "n": len(r)})
            except Exception:  # noqa
                pass
        return r
    bc.consecutive_combinations = cc

    orig_nc = bc.nan_combinations

    @functools.wraps(orig_nc)
    def nc(*a, **k):
        r = orig_nc(*a, **k)
        _count("nan_combinations")
        try:
            EVENTS.append({"ev": "nan_combinations", "k": len(a[0]), "n": len(r)})
        except Exception:  # noqa
            pass
        return r
    bc.nan_combinations = nc

    orig_gba = bc.BaseCarver._get_best_association

    @functools.wraps(orig_gba)
    def gba(self, feature, order, xagg, combinations, *a, **k):
        _count("_get_best_association")
        ev = {"ev": "get_best_association", "feature": feature, "dropna": bool(k.get("dropna", False)),
              "n_comb": len(combinations),
              "combinations": [[[str(m) for m in grp] for grp in comb] for comb in combinations] if len(combinations) <= 3000 else None}
        EVENTS.append(ev)
        best, new_order = orig_gba(self, feature, order, xagg, combinations, *a, **k)
        ev["found"] = best is not None
        if best is not None:
            try:
                ev["best"] = [[str(m) for m in grp] for grp in best["combination"]]
                ev["best_measure"] = float(best[self.sort_by])
            except Exception:  # noqa
                pass
        return best, new_order
    bc.BaseCarver._get_best_association = gba

    orig_tv = bc.BaseCarver._test_viability

    @functools.wraps(orig_tv)
    def tv(self, feature, order, associations_xagg, xagg_dev, dropna):
        _count("_test_viability")
        try:
            meas = [float(a[self.sort_by]) for a in associations_xagg]
        except Exception:  # noqa
            meas = None
        r = orig_tv(self, feature, order, associations_xagg, xagg_dev, dropna)
        EVENTS.append({"ev": "test_viability", "feature": feature, "dropna": bool(dropna), "n": len(associations_xagg),
                       "measures_sorted": meas, "has_dev": xagg_dev is not None,
                       "winner_rank": None if r is None else next((i for i, a in enumerate(associations_xagg) if a is r), None)})
        return r
    bc.BaseCarver._test_viability = tv

    orig_rm = bc.BaseCarver._remove_feature

    @functools.wraps(orig_rm)
    def rm(self, feature):
        _count("_remove_feature")
        EVENTS.append({"ev": "remove_feature", "feature": feature})
        return orig_rm(self, feature)
    bc.BaseCarver._remove_feature = rm
    _installed["events"] = True


def install_all(events=False):
    install_grouped_list_invariant()
    install_coverage()
    if events:
        install_event_log()


def reset_case():
    del EVENTS[:]
    del GL_WITNESSES[:]
