"""Runtime-monitoring harness for mdefrance/AutoCarver (see /verif/DESIGN.md)."""
