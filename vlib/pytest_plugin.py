"""pytest plugin: runs the repository's own tests with the GroupedList icontract invariant on (validation of the monitor:
a firing there is either a too strict invariant or a defect the tests do not assert).
usage: cd /repo && PYTHONPATH=/verif /venv/bin/python -m pytest -p vlib.pytest_plugin -q -p no:cacheprovider tests
"""
import json
import os
import sys

sys.path.append(os.path.join(os.path.dirname(os.path.dirname(os.path.abspath(__file__))), ".deps"))
from vlib import monitors  # noqa: E402

monitors.install_grouped_list_invariant()


def pytest_sessionfinish(session, exitstatus):
    out = os.environ.get("VERIF_PLUGIN_OUT")
    rec = {"pid": os.getpid(), "evals": monitors.STATS["gl_invariant_evals"], "fired": monitors.STATS["gl_invariant_fired"], "witnesses": monitors.GL_WITNESSES[:3]}
    if out:
        with open(out, "a") as f:
            f.write(json.dumps(rec) + "\n")
    print("\nVERIF-PLUGIN", json.dumps({k: rec[k] for k in ("evals", "fired")}))
