"""Independent interpreter of a fitted `values_orders` entry (DESIGN 1.4).

Deliberately does NOT use GroupedList.get_group / get / contains: it walks list(order) and order.content only.
"""
import math

import numpy as np

NAN = "__NAN__"
DEFAULT = "__OTHER__"


def is_nan(v):
    if v is None:
        return True
    try:
        return isinstance(v, (float, np.floating)) and math.isnan(v)
    except TypeError:
        return False


def snapshot(order):
    """[(leader, [members...])] in fitted order; plain python objects only."""
    return [(leader, list(order.content.get(leader, []))) for leader in list(order)]


def nan_group(snap, str_nan=NAN):
    """index of the group holding the missing-value sentinel, or None"""
    for i, (_, members) in enumerate(snap):
        if any(isinstance(m, str) and m == str_nan for m in members):
            return i
    return None


def quant_group(snap, x, str_nan=NAN):
    """Group index of a real number: the first group whose upper bound (leader) is >= x."""
    if is_nan(x):
        return nan_group(snap, str_nan)
    for i, (leader, _) in enumerate(snap):
        if isinstance(leader, str):
            continue  # the NaN-alone group
        if x <= leader:
            return i
    return None


def _same(a, b):
    if isinstance(a, str) != isinstance(b, str):
        return False
    try:
        return bool(a == b)
    except Exception:  # noqa
        return False


def str_form(v):
    """String form used to match numeric-looking qualitative values (integer-valued floats lose '.0')."""
    if isinstance(v, str):
        return v
    if isinstance(v, (float, np.floating)) and float(v).is_integer():
        return str(int(v))
    if isinstance(v, (bool, np.bool_)):
        return str(v)
    if isinstance(v, (int, np.integer)):
        return str(int(v))
    return str(v)


def qual_group(snap, v, str_nan=NAN):
    """Group index of a qualitative value: raw membership, else through its string form."""
    if is_nan(v):
        return nan_group(snap, str_nan)
    for i, (_, members) in enumerate(snap):
        if any(_same(v, m) for m in members):
            return i
    if not isinstance(v, str):
        s = str_form(v)
        for i, (_, members) in enumerate(snap):
            if any(isinstance(m, str) and m == s for m in members):
                return i
    return None


def groups_of(snap, values, quantitative, str_nan=NAN):
    f = quant_group if quantitative else qual_group
    cache = {}
    out = []
    for v in values:
        key = ("nan",) if is_nan(v) else (type(v).__name__ if not isinstance(v, (int, float, np.integer, np.floating)) else "num", v)
        try:
            if key in cache:
                out.append(cache[key])
                continue
        except TypeError:
            key = None
        g = f(snap, v, str_nan)
        if key is not None:
            cache[key] = g
        out.append(g)
    return out


def has_default(snap, str_default=DEFAULT):
    return any(any(isinstance(m, str) and m == str_default for m in members) for _, members in snap)


def wellformed_problem(snap):
    """Structural validation of an ordered partition (independent from the icontract invariant)."""
    def k(v):
        return ("nan",) if is_nan(v) else (("s", v) if isinstance(v, str) else ("n", float(v)) if isinstance(v, (int, float, np.integer, np.floating)) and not isinstance(v, bool) else ("o", repr(v)))
    leaders = [k(l) for l, _ in snap]
    if len(set(leaders)) != len(leaders):
        return "duplicate leaders"
    seen = set()
    for leader, members in snap:
        mk = [k(m) for m in members]
        if k(leader) not in mk:
            return f"leader {leader!r} outside its group"
        for m in mk:
            if m in seen:
                return f"value {m!r} in two groups"
            seen.add(m)
    return None


def float_labels(snap, str_nan=NAN):
    """'float' labels are the group's rank in the fitted order, the NaN-alone group being last."""
    order = [i for i, (l, _) in enumerate(snap) if not (isinstance(l, str) and l == str_nan)]
    alone = [i for i, (l, _) in enumerate(snap) if isinstance(l, str) and l == str_nan]
    lab = {}
    for rank, i in enumerate(order + alone):
        lab[i] = rank
    return lab
