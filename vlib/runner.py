"""Sharded execution, aggregation, known-finding classification, evidence writing, verdicts (DESIGN 1.6, 1.7, 3)."""
import concurrent.futures as cf
import hashlib
import importlib
import json
import os
import subprocess
import sys
import time
import traceback

from . import env

N_SHARDS = int(os.environ.get("VERIF_SHARDS", "16"))
GL_DECIDES = ("C13", "C08", "C17")


def load_prop(pid):
    return importlib.import_module(f"vlib.props.{pid.lower()}")


def known_findings():
    path = os.path.join(env.VERIF, "known_findings.json")
    try:
        return json.load(open(path))["findings"]
    except (OSError, KeyError, ValueError):
        return []


def jsonable(o, depth=0):
    import numpy as np
    if depth > 8:
        return repr(o)
    if isinstance(o, dict):
        return {str(k): jsonable(v, depth + 1) for k, v in o.items()}
    if isinstance(o, (list, tuple, set)):
        return [jsonable(v, depth + 1) for v in o]
    if isinstance(o, (np.integer,)):
        return int(o)
    if isinstance(o, (np.floating,)):
        o = float(o)
    if isinstance(o, float):
        if o != o:
            return "NaN"
        if o in (float("inf"), float("-inf")):
            return "inf" if o > 0 else "-inf"
        return o
    if isinstance(o, (np.bool_,)):
        return bool(o)
    if isinstance(o, (str, int, bool)) or o is None:
        return o
    return repr(o)


# ----------------------------------------------------------------------------- worker side
def worker_main(argv):
    pid, tier, seed, shard, nshards, out_path = argv[0], argv[1], int(argv[2]), int(argv[3]), int(argv[4]), argv[5]
    t0 = time.time()
    env.bootstrap()
    from . import monitors
    mod = load_prop(pid)
    monitors.install_all(events=getattr(mod, "WANT_EVENTS", False))
    n_cases = mod.n_cases(tier)
    budget = float(os.environ.get("VERIF_SHARD_BUDGET_S", "0") or 0) or mod.budget_s(tier)
    agg = {"evaluations": 0, "nontrivial_keys": [], "counters": {}, "violations": [], "samples": [], "harness_errors": [],
           "skipped": 0, "not_run": 0, "shard": shard}
    keys = set()
    indices = list(range(shard, n_cases, nshards))
    for pos, i in enumerate(indices):
        if time.time() - t0 > budget:
            agg["not_run"] = len(indices) - pos  # watchdog: inconclusive for these, never a violation
            break
        monitors.reset_case()
        try:
            res = mod.run_case(tier, seed, i)
        except Exception:  # harness defect or unexpected library behaviour outside the guarded calls
            agg["harness_errors"].append({"index": i, "trace": traceback.format_exc()[-1500:]})
            continue
        agg["evaluations"] += 1
        if res.get("status") == "skip":
            agg["skipped"] += 1
        for k, v in res.get("counters", {}).items():
            agg["counters"][k] = agg["counters"].get(k, 0) + int(v)
        for t in res.get("tags", []):
            agg["counters"]["tag:" + t] = agg["counters"].get("tag:" + t, 0) + 1
        viols = list(res.get("violations", []))
        if monitors.GL_WITNESSES:
            # the invariant rides along everywhere, but it only *decides* the properties that speak about it
            if pid in GL_DECIDES:
                viols.append({"kind": "grouped_list_invariant", "mechanism": "GL-INVARIANT", "msg": monitors.GL_WITNESSES[0]["problem"],
                              "detail": monitors.GL_WITNESSES[:3]})
            else:
                agg["counters"]["foreign_gl_invariant_fired"] = agg["counters"].get("foreign_gl_invariant_fired", 0) + 1
        for v in viols:
            v = dict(v)
            v.update({"index": i, "tier": tier, "seed": seed})
            if "case" not in v and res.get("sample") is not None:
                v["case"] = res.get("sample")
            agg["violations"].append(jsonable(v))
        if res.get("nontrivial"):
            k = res.get("key") or f"{i}"
            if k not in keys:
                keys.add(k)
                agg["nontrivial_keys"].append(k)
                if len(agg["samples"]) < 2 and res.get("sample") is not None:
                    agg["samples"].append(jsonable(res["sample"]))
    agg["gl_invariant_evals"] = monitors.STATS["gl_invariant_evals"]
    agg["wrap_calls"] = dict(monitors.WRAP_CALLS)
    agg["anchor_coverage"] = monitors.anchor_coverage(getattr(mod, "ANCHORS", []))
    agg["wall_s"] = time.time() - t0
    with open(out_path, "w") as f:
        json.dump(agg, f)
    return 0


# ----------------------------------------------------------------------------- parent side
def _run_shard(pid, tier, seed, shard, nshards, tmpdir, timeout, hashseed):
    out = os.path.join(tmpdir, f"shard{shard}.json")
    envv = dict(os.environ, PYTHONPATH=env.VERIF, PYTHONHASHSEED=str(hashseed), PYTHONDONTWRITEBYTECODE="1",
                OMP_NUM_THREADS="1", OPENBLAS_NUM_THREADS="1", MKL_NUM_THREADS="1")
    envv[env.GUARD] = "1"
    cmd = [env.PY, "-m", "vlib.worker", pid, tier, str(seed), str(shard), str(nshards), out]
    try:
        p = subprocess.run(cmd, cwd=env.VERIF, env=envv, timeout=timeout, stdout=subprocess.PIPE, stderr=subprocess.PIPE)
    except subprocess.TimeoutExpired:
        return {"shard": shard, "dead": "timeout"}
    if p.returncode != 0 or not os.path.exists(out):
        return {"shard": shard, "dead": f"exit {p.returncode}", "stderr": p.stderr.decode(errors="replace")[-1500:]}
    try:
        return json.load(open(out))
    except ValueError:
        return {"shard": shard, "dead": "bad json"}


def check(pid, tier, seed):
    import tempfile
    import shutil
    t0 = time.time()
    env.ensure_deps()
    mod = load_prop(pid)
    nshards = min(N_SHARDS, max(1, mod.n_cases(tier)))
    tmpdir = tempfile.mkdtemp(prefix=f"verif_{pid}_")
    timeout = mod.budget_s(tier) * 1.5 + 120
    hashseed = getattr(mod, "HASHSEED", 0)
    try:
        with cf.ThreadPoolExecutor(max_workers=nshards) as ex:
            futs = [ex.submit(_run_shard, pid, tier, seed, s, nshards, tmpdir, timeout, hashseed) for s in range(nshards)]
            shards = [f.result() for f in futs]
    finally:
        shutil.rmtree(tmpdir, ignore_errors=True)
    return finish(pid, tier, seed, mod, shards, time.time() - t0)


def finish(pid, tier, seed, mod, shards, wall):
    dead = [s for s in shards if "dead" in s]
    live = [s for s in shards if "dead" not in s]
    evaluations = sum(s["evaluations"] for s in live)
    keys = set()
    for s in live:
        keys.update(s["nontrivial_keys"])
    counters = {}
    for s in live:
        for k, v in s["counters"].items():
            counters[k] = counters.get(k, 0) + v
    samples = [x for s in live for x in s["samples"]][:3]
    harness_errors = [x for s in live for x in s["harness_errors"]]
    not_run = sum(s.get("not_run", 0) for s in live)
    violations = [v for s in live for v in s["violations"]]
    gl_evals = sum(s.get("gl_invariant_evals", 0) for s in live)
    wrap_calls = {}
    for s in live:
        for k, v in s.get("wrap_calls", {}).items():
            wrap_calls[k] = wrap_calls.get(k, 0) + v
    cov = {}
    for s in live:
        for k, (h, t) in s.get("anchor_coverage", {}).items():
            cov[k] = [max(cov.get(k, [0, 0])[0], h), t]

    # known findings: classified by mechanism, decided from the violating case itself
    kf = [f for f in known_findings() if f.get("property") == pid or pid in f.get("also", [])]
    open_mech = {f["mechanism"]: f for f in kf if f.get("status") == "open"}
    known_hits = {}
    new = []
    for v in violations:
        mech = v.get("mechanism")
        if mech in open_mech:
            known_hits.setdefault(mech, []).append(v)
        else:
            new.append(v)

    # replay files
    rdir = os.path.join(env.VERIF, "replays", pid) if env.REPO == "/repo" else os.path.join(env.VERIF, "replays", ".scratch", pid)
    lines = []
    if new:
        os.makedirs(rdir, exist_ok=True)
    for n, v in enumerate(new[:10]):
        h = hashlib.sha1(json.dumps(v, sort_keys=True, default=str).encode()).hexdigest()[:10]
        path = os.path.join(rdir, f"{tier}_s{seed}_i{v.get('index')}_{h}.json")
        with open(path, "w") as f:
            json.dump({"property": pid, "tier": tier, "seed": seed, "index": v.get("index"), "violation": v}, f, indent=1, default=str)
        lines.append(f"VIOLATION property={pid} replay={os.path.relpath(path, env.VERIF)}  # {v.get('kind')}: {str(v.get('msg'))[:160]}")
    if new:
        with open(os.path.join(rdir, f"_all_{tier}_s{seed}.json"), "w") as f:
            json.dump([{k: v.get(k) for k in ("index", "kind", "msg", "exc", "where", "feature", "flavours", "frame", "mechanism", "estimator")} for v in new[:2000]], f, indent=0, default=str)
    for mech, vs in known_hits.items():
        lines.append(f"KNOWN-FINDING: property={pid} {open_mech[mech]['id']} {open_mech[mech]['what']} (x{len(vs)} in this run)")

    # inconclusive?
    reasons = []
    if dead:
        reasons.append(f"{len(dead)} shard(s) died: " + "; ".join(f"{d['shard']}:{d['dead']}" for d in dead))
    if harness_errors:
        reasons.append(f"{len(harness_errors)} harness error(s), first: {harness_errors[0]['trace'].strip().splitlines()[-1][:200]}")
    if not_run:
        reasons.append(f"watchdog: {not_run} cases not run")
    need = mod.min_nontrivial(tier)
    if len(keys) < need:
        reasons.append(f"only {len(keys)} distinct non-trivial cases (< {need})")
    if gl_evals == 0 and getattr(mod, "NEEDS_GL", True):
        reasons.append("GroupedList invariant never evaluated")
    for name in getattr(mod, "REQUIRED_WRAPS", []):
        if wrap_calls.get(name, 0) == 0:
            reasons.append(f"wrapper {name} never called (bypassed)")
    for key in [f"{a}:{b}" for a, b in getattr(mod, "DECIDING_ANCHORS", [])]:
        if cov.get(key, [0, 0])[0] == 0:
            reasons.append(f"deciding anchor {key} never executed")
    for cname, cmin in getattr(mod, "REQUIRED_COUNTERS", {}).get(tier, {}).items():
        if counters.get(cname, 0) < cmin:
            reasons.append(f"counter {cname}={counters.get(cname, 0)} < {cmin}")

    evidence = {
        "property_id": pid, "tier": tier, "seed": int(seed), "level": "exploration",
        "coverage": {
            "evaluations": int(evaluations),
            "distinct_nontrivial": int(len(keys)),
            "rule": mod.RULE,
            "samples": samples if samples else [{"note": "no non-trivial sample recorded"}],
            "observed": counters,
            "grouped_list_invariant_evaluations": gl_evals,
            "wrapper_calls": wrap_calls,
            "anchor_lines_hit": cov,
            "known_findings_hit": {m: len(v) for m, v in known_hits.items()},
            "inconclusive_reasons": reasons,
            "dead_shards": len(dead), "harness_errors": len(harness_errors), "cases_not_run": not_run,
            "exhaustive": False,  # no run enumerates its whole input space; some enumerate a finite sub-space completely:
            "exhaustive_subspace": getattr(mod, "EXHAUSTIVE_NOTE", "") if getattr(mod, "EXHAUSTIVE", {}).get(tier, False) else "",
            "repo": env.REPO,
        },
        "assumptions": list(getattr(mod, "ASSUMPTIONS", [])),
        "wall_s": round(wall, 2),
        "violations": len(new),
    }
    os.makedirs(os.path.join(env.VERIF, "evidence"), exist_ok=True)
    ev_path = os.path.join(env.VERIF, "evidence", f"{pid}.json")
    if env.REPO != "/repo":
        ev_path = os.path.join(env.VERIF, "evidence", f".scratch_{pid}.json")  # runs against a scratch tree never touch evidence
    with open(ev_path, "w") as f:
        json.dump(jsonable(evidence), f, indent=1)

    kinds = {}
    for v in new:
        kinds[str(v.get("kind"))] = kinds.get(str(v.get("kind")), 0) + 1
    if kinds:
        lines.append("# violation kinds: " + ", ".join(f"{k} x{n}" for k, n in sorted(kinds.items(), key=lambda kv: -kv[1])))
    for ln in lines:
        print(ln)
    summary = (f"{pid} {tier} seed={seed}: evaluations={evaluations} distinct_nontrivial={len(keys)} "
               f"violations={len(new)} known={sum(len(v) for v in known_hits.values())} gl_inv_evals={gl_evals} wall={wall:.1f}s")
    print(summary)
    if new:
        return 1
    if reasons:
        print(f"INCONCLUSIVE property={pid} reason=" + " | ".join(reasons))
        return 2
    return 0


def replay(pid, path):
    env.ensure_deps()
    env.bootstrap()
    from . import monitors
    mod = load_prop(pid)
    monitors.install_all(events=getattr(mod, "WANT_EVENTS", False))
    rec = json.load(open(path))
    res = mod.run_case(rec["tier"], rec["seed"], rec["index"])
    viols = list(res.get("violations", []))
    if monitors.GL_WITNESSES:
        viols.append({"kind": "grouped_list_invariant", "msg": monitors.GL_WITNESSES[0]["problem"]})
    print(json.dumps(jsonable({"status": res.get("status"), "violations": viols, "sample": res.get("sample")}), indent=1)[:6000])
    open_mech = {f["mechanism"]: f for f in known_findings() if f.get("status") == "open" and (f.get("property") == pid or pid in f.get("also", []))}
    new = [v for v in viols if v.get("mechanism") not in open_mech]
    for mech in sorted({v.get("mechanism") for v in viols if v.get("mechanism") in open_mech}):
        print(f"KNOWN-FINDING: property={pid} {open_mech[mech]['id']} {open_mech[mech]['what']}")
    if new:
        print(f"VIOLATION property={pid} replay={path}")
        return 1
    return 0


def run_one(pid, tier, seed, index):
    """debug helper: ./vcheck <ID> --case <tier> <seed> <index>"""
    import tempfile
    path = os.path.join(tempfile.gettempdir(), f"verif_case_{pid}_{tier}_{seed}_{index}.json")
    json.dump({"tier": tier, "seed": int(seed), "index": int(index)}, open(path, "w"))
    return replay(pid, path)


def main(argv):
    if len(argv) >= 3 and argv[1] == "--replay":
        return replay(argv[0], argv[2])
    if len(argv) >= 5 and argv[1] == "--case":
        return run_one(argv[0], argv[2], argv[3], argv[4])
    pid = argv[0]
    tier = argv[1] if len(argv) > 1 else os.environ.get("VERIF_TIER", "quick")
    seed = int(os.environ.get("VERIF_SEED", "0"))
    return check(pid, tier, seed)
