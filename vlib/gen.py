"""Seeded workload generators (DESIGN 1.2). Everything derives from (property, tier, VERIF_SEED, case index)."""
import zlib

import numpy as np
import pandas as pd

NAN = "__NAN__"


def rng_for(prop, tier, seed, i, salt=0):
    return np.random.default_rng([zlib.crc32(prop.encode()), {"quick": 0, "thorough": 1}.get(tier, 2), int(seed), int(i), salt])


def pick(rng, seq, p=None):
    seq = list(seq)
    return seq[int(rng.choice(len(seq), p=p))]


# --------------------------------------------------------------------------- columns
QUANT_FLAVOURS = [
    "normal", "uniform", "lognormal", "discrete", "discrete_small", "spike_low", "spike_mid", "spike_high", "two_spikes",
    "rounded", "zipf", "rare_equal", "int", "intfloat", "float32", "negative", "tinymag", "bigmag", "close4", "halfint",
    "dominant", "epoch", "close10",
]
QUANT_DEGENERATE = ["constant", "allnan", "ids", "one_value_plus_nan", "two_values"]


def quant_column(rng, n, flavour=None, nan_share=None):
    """Returns (float array with NaN, latent codes (int per row, -1 for NaN), meta)"""
    if flavour is None:
        flavour = pick(rng, QUANT_FLAVOURS)
    if nan_share is None:
        nan_share = pick(rng, [0, 0, 0, 0.02, 0.05, 0.15, 0.3, 0.6])
    dtype = "float64"
    if flavour == "normal":
        x = rng.normal(0, 1, n)
    elif flavour == "uniform":
        x = rng.uniform(-5, 20, n)
    elif flavour == "lognormal":
        x = rng.lognormal(0, 1.5, n)
    elif flavour == "discrete":
        k = int(rng.integers(5, 41))
        x = rng.integers(0, k, n).astype(float)
    elif flavour == "discrete_small":
        k = int(rng.integers(2, 9))
        p = rng.dirichlet(np.ones(k) * 1.5)
        x = rng.choice(k, n, p=p).astype(float) * pick(rng, [1, 0.5, 10, 3])
    elif flavour in ("spike_low", "spike_mid", "spike_high", "two_spikes"):
        x = rng.normal(0, 1, n)
        share = pick(rng, [0.1, 0.2, 0.35, 0.5])
        m = rng.random(n) < share
        val = {"spike_low": x.min() - 1, "spike_mid": float(np.median(x)), "spike_high": x.max() + 1, "two_spikes": x.min() - 1}[flavour]
        x[m] = val
        if flavour == "two_spikes":
            m2 = (~m) & (rng.random(n) < share)
            x[m2] = x.max() + 1
    elif flavour == "rounded":
        x = np.round(rng.normal(0, pick(rng, [1, 3, 10]), n))
    elif flavour == "zipf":
        x = np.minimum(rng.zipf(1.6, n), 60).astype(float)
    elif flavour == "rare_equal":
        k = int(rng.integers(12, 60))
        x = (np.arange(n) % k).astype(float)
        rng.shuffle(x)
    elif flavour == "int":
        x = rng.integers(-20, 50, n).astype(float)
        dtype = "int"
    elif flavour == "intfloat":
        x = rng.integers(0, 30, n).astype(float)
    elif flavour == "float32":
        x = rng.normal(0, 1, n).astype(np.float32).astype(float)
        dtype = "float32"
    elif flavour == "negative":
        x = -rng.lognormal(0, 1, n)
    elif flavour == "tinymag":
        x = rng.normal(0, 1, n) * 1e-8
    elif flavour == "bigmag":
        x = 1e15 + rng.integers(0, 40, n).astype(float) * 1e11
    elif flavour == "close4":
        x = 202300.0 + rng.integers(1, 13, n).astype(float)
    elif flavour == "halfint":
        x = rng.integers(0, 12, n).astype(float) / 2
    elif flavour == "dominant":
        # one dominant value with a rare lower tail and an even rarer upper tail
        x = np.zeros(n)
        share = pick(rng, [0.8, 0.9, 0.93, 0.96])
        u = rng.random(n)
        lo = u < (1 - share) * 0.6
        hi = (~lo) & (u < (1 - share))
        x[lo] = -rng.lognormal(0, 1, int(lo.sum())) - 0.1
        x[hi] = rng.lognormal(0, 1, int(hi.sum())) + 0.1
    elif flavour == "epoch":
        # timestamps one minute apart: boundaries share their first 7-8 significant digits
        x = 1.7e9 + rng.integers(0, 40, n).astype(float) * 60
    elif flavour == "close10":
        x = 1e9 + rng.integers(0, 25, n).astype(float)
    elif flavour == "constant":
        x = np.full(n, float(rng.integers(-3, 4)))
    elif flavour == "allnan":
        x = np.full(n, np.nan)
        nan_share = 0
    elif flavour == "ids":
        x = rng.permutation(n).astype(float)
    elif flavour == "one_value_plus_nan":
        x = np.full(n, 1.0)
        nan_share = max(nan_share, 0.3)
    elif flavour == "two_values":
        x = (rng.random(n) < pick(rng, [0.5, 0.1, 0.03])).astype(float)
    else:
        raise ValueError(flavour)
    x = np.asarray(x, float)
    if nan_share > 0:
        m = rng.random(n) < nan_share
        if m.all() and flavour != "allnan":
            m[0] = False
        x[m] = np.nan
        if dtype == "int":
            dtype = "float64"
    return x, {"flavour": flavour, "nan_share": nan_share, "dtype": dtype}


def cast_quant(x, dtype):
    if dtype == "int" and not np.isnan(x).any():
        return x.astype(np.int64)
    if dtype == "float32":
        return x.astype(np.float32)
    return x


def letters(k, rng=None, permute=False):
    names = [f"v{chr(97 + i)}" if i < 26 else f"w{i}" for i in range(k)]
    if permute and rng is not None:
        names = [names[i] for i in rng.permutation(k)]
    return names


QUAL_NAME_STYLES = ["letters", "permuted", "words", "numeric_int", "numeric_float", "numeric_str", "mixed_num"]


def category_names(rng, k, style=None):
    if style is None:
        style = pick(rng, QUAL_NAME_STYLES, p=[0.3, 0.25, 0.15, 0.08, 0.08, 0.07, 0.07])
    if style == "letters":
        return letters(k), style
    if style == "permuted":
        return letters(k, rng, True), style
    if style == "words":
        base = ["low risk", "Mid", "HIGH", "n/a", "very high", "z", "A b c", "other", "x_1", "x_10", "x_2", "é"]
        idx = rng.permutation(len(base))[:k]
        return [base[i] for i in idx], style
    if style == "numeric_int":
        vals = rng.permutation(30)[:k]
        return [int(v) for v in vals], style
    if style == "numeric_float":
        vals = rng.permutation(30)[:k]
        return [float(v) + pick(rng, [0.0, 0.5]) for v in vals], style
    if style == "numeric_str":
        vals = rng.permutation(30)[:k]
        return [str(int(v)) for v in vals], style
    if style == "mixed_num":
        vals = rng.permutation(30)[:k]
        return [float(v) for v in vals], style
    raise ValueError(style)


def qual_column(rng, n, k=None, style=None, nan_share=None, rare=True, sizes=None):
    """Returns (object array, codes, names, meta). codes: index into names, -1 for NaN."""
    if k is None:
        k = int(rng.integers(2, 13))
    names, style = category_names(rng, min(k, 12), style)
    k = len(names)
    if sizes is not None:
        codes = np.repeat(np.arange(k), sizes)
        rng.shuffle(codes)
        n = len(codes)
    else:
        alpha = np.ones(k) * pick(rng, [0.4, 1.0, 3.0])
        p = rng.dirichlet(alpha)
        if not rare:
            p = (p + 0.5 / k)
            p = p / p.sum()
        codes = rng.choice(k, n, p=p)
    if nan_share is None:
        nan_share = pick(rng, [0, 0, 0, 0.03, 0.1, 0.3])
    vals = np.empty(n, dtype=object)
    for i, c in enumerate(codes):
        vals[i] = names[c]
    codes = codes.copy()
    if nan_share > 0:
        m = rng.random(n) < nan_share
        if m.all():
            m[0] = False
        vals[m] = np.nan
        codes[m] = -1
    return vals, codes, names, {"style": style, "nan_share": nan_share, "k": k}


# --------------------------------------------------------------------------- targets
def binary_from_codes(rng, codes, k, palette=(0.1, 0.2, 0.3, 0.5, 0.6, 0.8), exact=True, nan_level=None):
    """Binary target built from per-bucket counts: exact ties of rates occur by construction."""
    n = len(codes)
    levels = rng.choice(palette, k + 1)
    if nan_level is not None:
        levels[k] = nan_level
    y = np.zeros(n, int)
    for c in list(range(k)) + [-1]:
        idx = np.where(codes == c)[0]
        if len(idx) == 0:
            continue
        lvl = levels[c if c >= 0 else k]
        if exact:
            m = int(round(lvl * len(idx)))
            idx = rng.permutation(idx)
            y[idx[:m]] = 1
        else:
            y[idx] = (rng.random(len(idx)) < lvl).astype(int)
    if y.min() == y.max():
        y[int(rng.integers(n))] = 1 - y[0]
    return y, [float(v) for v in levels]


def continuous_from_codes(rng, codes, k, integer=True):
    n = len(codes)
    levels = rng.choice([0, 2, 4, 6, 9], k + 1)
    y = np.zeros(n)
    for c in list(range(k)) + [-1]:
        idx = np.where(codes == c)[0]
        lvl = levels[c if c >= 0 else k]
        if integer:
            y[idx] = rng.integers(0, 5, len(idx)) + lvl
        else:
            y[idx] = rng.normal(lvl, 1.5, len(idx))
    if len(np.unique(y)) < 3:
        y[:3] = [y.min() - 1, y.max() + 1, y.max() + 2]
    return y, [float(v) for v in levels]


def target_scale(rng):
    """continuous targets of ordinary, tiny and large magnitude (powers of two: ties and order are preserved exactly)"""
    return pick(rng, [1.0, 1.0, 1.0, 2.0 ** -17, 2.0 ** 13])


def multiclass_from_codes(rng, codes, k, n_classes, labels="int"):
    n = len(codes)
    y = np.zeros(n, int)
    probs = rng.dirichlet(np.ones(n_classes) * 1.2, k + 1)
    for c in list(range(k)) + [-1]:
        idx = np.where(codes == c)[0]
        if len(idx):
            y[idx] = rng.choice(n_classes, len(idx), p=probs[c if c >= 0 else k])
    for cl in range(n_classes):  # every class present, a few times
        if (y == cl).sum() < 3:
            y[rng.choice(n, 3, replace=False)] = cl
    if labels == "int":
        lab = list(range(n_classes))
    elif labels == "int_unordered":  # string order differs from numeric order
        lab = [2, 10, 33, 4, 100][:n_classes]
    else:
        lab = ["cls_a", "B", "c c", "10", "9"][:n_classes]
    return np.array([lab[v] for v in y], dtype=object if labels == "str" else int), lab


def codes_from_quant(x, n_bins=6):
    """latent codes of a quantitative column: quantile bin of the value (NaN -> -1)"""
    codes = np.full(len(x), -1)
    ok = ~np.isnan(x)
    if ok.sum() == 0:
        return codes, 1
    vals = np.unique(x[ok])
    if len(vals) <= n_bins:
        for i, v in enumerate(vals):
            codes[x == v] = i
        return codes, len(vals)
    qs = np.quantile(x[ok], np.linspace(0, 1, n_bins + 1)[1:-1])
    codes[ok] = np.searchsorted(qs, x[ok], side="left")
    return codes, n_bins


# --------------------------------------------------------------------------- frames
class Case:
    """A carver/discretizer workload: frame(s), target(s), declared feature kinds and configuration."""

    def __init__(self):
        self.X = None
        self.y = None
        self.X_dev = None
        self.y_dev = None
        self.kind = "binary"  # binary | continuous | multiclass
        self.quant = []
        self.qual = []
        self.ordinal = []
        self.values_orders = {}
        self.meta = {}
        self.config = {}

    @property
    def features(self):
        return self.quant + self.qual + self.ordinal

    def ftype(self, f):
        return "quant" if f in self.quant else "ord" if f in self.ordinal else "cat"

    def orders_copy(self):
        """fresh copies of the user rankings; a case may hand them over as numpy arrays (a documented input type)"""
        if self.meta.get("orders_as_array"):
            return {k: np.array(list(v)) for k, v in self.values_orders.items()}
        return {k: list(v) for k, v in self.values_orders.items()}

    def describe(self, rows=6):
        d = {"kind": self.kind, "n": int(len(self.X)), "quant": self.quant, "qual": self.qual, "ordinal": self.ordinal,
             "values_orders": {k: [repr(x) for x in v] for k, v in self.values_orders.items()},
             "config": {k: (v if isinstance(v, (int, float, str, bool, type(None))) else repr(v)) for k, v in self.config.items()},
             "meta": self.meta,
             "head": {c: [repr(v) for v in self.X[c].head(rows).tolist()] for c in self.X.columns},
             "y_head": [repr(v) for v in self.y.head(rows).tolist()],
             "n_dev": None if self.X_dev is None else int(len(self.X_dev))}
        return d


def carver_config(rng, kind, hostile=False, max_n_mod_hi=5):
    cfg = {
        "min_freq": pick(rng, [0.05, 0.08, 0.1, 0.12, 0.15, 0.2, 0.25, 0.3]),
        "max_n_mod": int(rng.integers(2, max_n_mod_hi + 1)),
        "dropna": bool(rng.random() < 0.6),
        "output_dtype": pick(rng, ["float", "str"]),
        "copy": True,
    }
    r = rng.random()
    if r < 0.5:
        cfg["min_freq_mod"] = None
    elif r < 0.7:
        cfg["min_freq_mod"] = cfg["min_freq"]
    elif r < 0.85:
        cfg["min_freq_mod"] = pick(rng, [0.02, 0.04, 0.05])
    else:
        cfg["min_freq_mod"] = pick(rng, [0.2, 0.25, 0.3])
    tame(cfg)
    if kind == "continuous":
        cfg["sort_by"] = "kruskal"
    else:
        cfg["sort_by"] = pick(rng, ["tschuprowt", "cramerv"])
    return cfg


def tame(cfg, limit=1600):
    """Keeps the number of candidate groupings per feature bounded (cost of a fit ~ number of candidates)."""
    import math
    k = int(round(1 / cfg["min_freq"])) + 1
    while cfg["max_n_mod"] > 2 and sum(math.comb(k - 1, g - 1) for g in range(2, cfg["max_n_mod"] + 1)) > limit:
        cfg["max_n_mod"] -= 1
    return cfg


def index_for(rng, n, style=None):
    if style is None:
        style = pick(rng, ["range", "range", "offset", "shuffled", "str"])
    if style == "range":
        return pd.RangeIndex(n)
    if style == "offset":
        return pd.Index(np.arange(n) + 1000)
    if style == "shuffled":
        return pd.Index(rng.permutation(n) * 3 + 7)
    return pd.Index([f"r{i:05d}" for i in rng.permutation(n)])


def single_feature_case(rng, ftype=None, kind=None, n=None, exact=True, with_dev=None, nan_share=None, k=None,
                        quant_flavour=None, hostile_names=False, dev_mode=None, max_n_mod_hi=5, min_freq_choices=None, round_total=False):
    """One feature 'f' whose target is built from the feature's latent buckets (ties by construction)."""
    c = Case()
    c.kind = kind or pick(rng, ["binary", "binary", "continuous"])
    ftype = ftype or pick(rng, ["quant", "ord", "cat"])
    n = n or int(pick(rng, [60, 100, 150, 200, 300, 400]))
    if k is None:
        k = int(rng.integers(3, 9))
    if nan_share is None:
        nan_share = pick(rng, [0, 0, 0.02, 0.05, 0.15, 0.3, 0.4])
    # bucket sizes: multiples of 5/10 so that equal rates are *exactly* equal
    unit = pick(rng, [5, 10, 10, 20]) if exact else 1
    w = rng.dirichlet(np.ones(k) * pick(rng, [1.0, 2.0, 5.0]))
    sizes = np.maximum(1, np.round(w * n / unit)).astype(int) * unit
    if round_total:
        # total forced to a round number so that groups sit exactly on min_freq_mod bounds (0.1 of 200 rows...)
        target = int(pick(rng, [100, 200, 400]))
        j = int(np.argmax(sizes))
        rest = int(sizes.sum() - sizes[j])
        if target - rest >= unit:
            sizes[j] = target - rest
    codes = np.repeat(np.arange(k), sizes)
    rng.shuffle(codes)
    n = len(codes)
    nan_mask = rng.random(n) < nan_share if nan_share > 0 else np.zeros(n, bool)
    if round_total and nan_share > 0:
        # exact NaN count as well
        nan_mask = np.zeros(n, bool)
        nan_mask[rng.choice(n, int(round(nan_share * n)), replace=False)] = True
    if nan_mask.all():
        nan_mask[0] = False
    lat = codes.copy()
    lat[nan_mask] = -1
    names = None
    if ftype == "quant":
        scale = pick(rng, [1.0, 0.5, 10.0, 3.0, 1e-3]) if quant_flavour is None else 1.0
        if quant_flavour == "close4":
            x = 202301.0 + codes
        elif quant_flavour == "bigmag":
            x = 1e15 + codes * 1e11
        elif quant_flavour == "epoch":
            x = 1.7e9 + codes * 60.0
        elif quant_flavour == "jitter":  # continuous inside each latent bucket
            x = codes + rng.random(n) * 0.9
        else:
            x = codes.astype(float) * scale + pick(rng, [0.0, -2.0, 100.0])
        x = x.astype(float)
        x[nan_mask] = np.nan
        c.X = pd.DataFrame({"f": x})
        c.quant = ["f"]
    else:
        style = pick(rng, ["permuted", "permuted", "letters", "words", "numeric_str"]) if not hostile_names else pick(rng, QUAL_NAME_STYLES)
        names, style = category_names(rng, k, style)
        k = len(names)
        codes = np.minimum(codes, k - 1)
        lat = np.where(nan_mask, -1, codes)
        vals = np.empty(n, dtype=object)
        for i, cd in enumerate(codes):
            vals[i] = names[cd]
        vals[nan_mask] = np.nan
        c.X = pd.DataFrame({"f": vals})
        if ftype == "ord":
            c.ordinal = ["f"]
            ranking = [str(v) if not isinstance(v, str) else v for v in names]
            extra = int(rng.integers(0, 3)) if rng.random() < 0.3 else 0
            for e in range(extra):  # never-observed values anywhere in the ranking
                ranking.insert(int(rng.integers(0, len(ranking) + 1)), f"unseen{e}")
            c.values_orders = {"f": ranking}
            if any(not isinstance(v, str) for v in names):
                # ordinal data must match the ranking: keep strings for ordinal features
                c.X["f"] = [np.nan if (isinstance(v, float) and v != v) else (v if isinstance(v, str) else str(v)) for v in c.X["f"]]
        else:
            c.qual = ["f"]
        c.meta["names"] = [repr(v) for v in names]
    if c.kind == "binary":
        y, levels = binary_from_codes(rng, lat, k, exact=exact)
    else:
        y, levels = continuous_from_codes(rng, lat, k, integer=exact)
        c.meta["target_scale"] = target_scale(rng)
        y = y * c.meta["target_scale"]
    c.y = pd.Series(y)
    idx = index_for(rng, n)
    c.X.index = idx
    c.y.index = idx
    c.meta.update({"ftype": ftype, "k_latent": int(k), "levels": levels, "nan_share": nan_share, "exact": bool(exact)})
    c.config = carver_config(rng, c.kind, max_n_mod_hi=max_n_mod_hi)
    if c.values_orders and rng.random() < 0.2:
        c.meta["orders_as_array"] = True
    if min_freq_choices:
        c.config["min_freq"] = pick(rng, min_freq_choices)
    if with_dev is None:
        with_dev = rng.random() < 0.35
    if with_dev:
        make_dev(rng, c, lat, k, levels, mode=dev_mode)
    return c


def make_dev(rng, c, lat, k, levels, mode=None):
    """Dev sample for a single-feature case: same distribution / bootstrap / modality missing / inversion / NaN only in dev."""
    mode = mode or pick(rng, ["same", "same", "bootstrap", "missing_mod", "inversion", "small", "identical", "exact_tie", "exact_tie"])
    n = len(c.X)
    f = c.features[0]
    if mode == "exact_tie" and k >= 2:
        # dev built from exact counts: two adjacent latent buckets get exactly the same rate on dev only
        lv = list(levels)
        j = int(rng.integers(0, k - 1))
        lv[j + 1] = lv[j]
        rows = []
        ys = []
        for cd in list(range(k)) + [-1]:
            src = np.where(lat == cd)[0]
            if len(src) == 0:
                continue
            m = int(pick(rng, [10, 20, 20, 40]))
            take = rng.choice(src, m, replace=True)
            rows.append(take)
            lvl = lv[cd if cd >= 0 else k]
            if c.kind == "binary":
                yy = np.zeros(m, int)
                yy[: int(round(lvl * m))] = 1
            else:
                yy = (np.tile(np.arange(5), m // 5 + 1)[:m] + float(lvl)) * c.meta.get("target_scale", 1.0)
            ys.append(yy)
        take = np.concatenate(rows)
        yd = np.concatenate(ys)
        if c.kind == "binary" and yd.min() == yd.max():
            yd[0] = 1 - yd[0]
        c.X_dev = c.X.iloc[take].reset_index(drop=True)
        c.y_dev = pd.Series(yd)
    elif mode == "identical":
        c.X_dev = c.X.copy()
        c.y_dev = c.y.copy()
    else:
        m = n if mode != "small" else max(30, n // 4)
        take = rng.choice(n, m, replace=True)
        Xd = c.X.iloc[take].reset_index(drop=True)
        latd = lat[take]
        if mode == "bootstrap":
            yd = c.y.iloc[take].reset_index(drop=True).values
        else:
            lv = list(levels)
            if mode == "inversion" and k >= 2:
                i, j = rng.choice(k, 2, replace=False)
                lv[i], lv[j] = lv[j], lv[i]
            if c.kind == "binary":
                yd = np.zeros(m, int)
                for cd in list(range(k)) + [-1]:
                    idx = np.where(latd == cd)[0]
                    if len(idx):
                        yd[idx] = (rng.random(len(idx)) < lv[cd if cd >= 0 else k]).astype(int)
                if yd.min() == yd.max():
                    yd[0] = 1 - yd[0]
            else:
                yd = np.zeros(m)
                for cd in list(range(k)) + [-1]:
                    idx = np.where(latd == cd)[0]
                    yd[idx] = rng.integers(0, 5, len(idx)) + lv[cd if cd >= 0 else k]
                if len(np.unique(yd)) < 3:
                    yd[:3] = [yd.min() - 1, yd.max() + 1, yd.max() + 2]
                yd = yd * c.meta.get("target_scale", 1.0)
        if mode == "missing_mod":
            present = [cd for cd in range(k) if (latd == cd).any()]
            if len(present) > 2:
                # remove the rarest or a random modality from dev on purpose
                drop = pick(rng, present) if rng.random() < 0.5 else min(present, key=lambda cd: (latd == cd).sum())
                keep = latd != drop
                Xd = Xd[keep].reset_index(drop=True)
                yd = np.asarray(yd)[keep]
                if c.kind == "binary" and (yd.min() == yd.max()):
                    yd[0] = 1 - yd[0]
                if c.kind == "continuous" and len(np.unique(yd)) < 3:
                    yd[:3] = [yd.min() - 1, yd.max() + 1, yd.max() + 2]
        c.X_dev = Xd
        c.y_dev = pd.Series(yd)
        ix = index_for(rng, len(Xd), pick(rng, ["range", "offset"]))
        c.X_dev.index = ix
        c.y_dev.index = ix
    c.meta["dev_mode"] = mode


def multi_feature_case(rng, kind=None, n=None, n_feat=None, hostile=False, degenerate=False, with_dev=None, n_classes=None,
                       allow_numeric_cat=True):
    """Several features of all kinds; target driven by a latent score (no engineered ties)."""
    c = Case()
    c.kind = kind or pick(rng, ["binary", "binary", "continuous", "multiclass"])
    n = n or int(pick(rng, [40, 80, 150, 300, 600, 1000]))
    n_feat = n_feat or int(rng.integers(1, 7))
    cols = {}
    score = np.zeros(n)
    metas = {}
    prev_name = None
    for j in range(n_feat):
        ftype = pick(rng, ["quant", "quant", "cat", "ord"])
        name = f"{ftype[0]}{j}"
        if prev_name is not None and rng.random() < 0.25:
            name = prev_name + pick(rng, ["_b", "0", "_zone"])  # a name containing another feature's name
        prev_name = name
        if ftype == "quant":
            pool = QUANT_FLAVOURS + (QUANT_DEGENERATE if degenerate else [])
            flav = pick(rng, pool)
            if not hostile and flav in ("bigmag", "close4", "epoch", "close10"):
                flav = "normal"
            x, meta = quant_column(rng, n, flav)
            codes, kk = codes_from_quant(x)
            eff = rng.normal(0, 1, kk + 1)
            score += eff[codes] * rng.choice([0, 0.5, 1.0])
            cols[name] = cast_quant(x, meta["dtype"])
            c.quant.append(name)
            metas[name] = meta
        else:
            style = None if (allow_numeric_cat and ftype == "cat") else pick(rng, ["letters", "permuted", "words", "numeric_str"])
            vals, codes, names, meta = qual_column(rng, n, style=style)
            if degenerate and ftype == "cat" and rng.random() < 0.35:
                # identifier-like column: (nearly) every row has its own value, none reaches min_freq
                vals = np.array([f"id{j}_{r}" for r in range(n)], dtype=object)
                if rng.random() < 0.5:
                    vals[rng.random(n) < 0.05] = np.nan
                names = sorted({v for v in vals if isinstance(v, str)})
                codes = np.zeros(n, int)
                names_for_effect = ["x"]
                meta = {"style": "ids", "nan_share": 0.0, "k": len(names)}
                kk = 1
                eff = rng.normal(0, 1, 2)
                cols[name] = vals
                c.qual.append(name)
                metas[name] = meta
                continue
            kk = len(names)
            eff = rng.normal(0, 1, kk + 1)
            score += eff[codes] * rng.choice([0, 0.5, 1.0])
            if ftype == "ord":
                vals = np.array([np.nan if (isinstance(v, float) and v != v) else (v if isinstance(v, str) else str(v)) for v in vals], dtype=object)
                ranking = [v if isinstance(v, str) else str(v) for v in names]
                if rng.random() < 0.3:
                    ranking.insert(int(rng.integers(0, len(ranking) + 1)), "never_seen")
                c.values_orders[name] = ranking
                c.ordinal.append(name)
            else:
                c.qual.append(name)
                nonnan = [v for v in vals if not (isinstance(v, float) and v != v)]
                if len(nonnan) == len(vals) and rng.random() < 0.6:
                    # numeric categories held in a true numpy dtype (numpy scalars, not python numbers)
                    if all(isinstance(v, int) for v in nonnan):
                        vals = np.array(vals, dtype=np.int64)
                        meta["np_dtype"] = "int64"
                    elif all(isinstance(v, float) for v in nonnan):
                        vals = np.array(vals, dtype=pick(rng, [np.float64, np.float32]))
                        meta["np_dtype"] = str(vals.dtype)
            cols[name] = vals
            metas[name] = meta
    # non-feature columns that must never be touched (one of them shares its values with a qualitative feature)
    cols["untouched"] = rng.normal(0, 1, n)
    qual_like = [k for k in cols if k in c.qual or k in c.ordinal]
    if qual_like:
        src = cols[qual_like[int(rng.integers(len(qual_like)))]]
        pool = [v for v in src if isinstance(v, str)] or ["memo"]
        cols["memo"] = np.array([pool[int(rng.integers(len(pool)))] if rng.random() < 0.8 else "free text" for _ in range(n)], dtype=object)
    X = pd.DataFrame(cols)
    if c.values_orders and rng.random() < 0.25:
        c.meta["orders_as_array"] = True
    noise = rng.normal(0, 1, n)
    s = score + noise
    if c.kind == "binary":
        thr = np.quantile(s, pick(rng, [0.5, 0.7, 0.9]))
        y = (s > thr).astype(int)
        if y.min() == y.max():
            y[0] = 1 - y[0]
    elif c.kind == "continuous":
        y = np.round(s * 3) if rng.random() < 0.5 else s
        if len(np.unique(y)) < 3:
            y = s
        c.meta["target_scale"] = target_scale(rng)
        y = y * c.meta["target_scale"]
    else:
        n_classes = n_classes or int(rng.integers(3, 6))
        qs = np.quantile(s, np.linspace(0, 1, n_classes + 1)[1:-1])
        cl = np.searchsorted(qs, s)
        style = pick(rng, ["int", "int_unordered", "str"])
        lab = {"int": list(range(n_classes)), "int_unordered": [2, 10, 33, 4, 100][:n_classes], "str": ["cls_a", "B", "c c", "10", "9"][:n_classes]}[style]
        y = np.array([lab[v] for v in cl], dtype=object if style == "str" else int)
        c.meta["class_labels"] = [repr(v) for v in lab]
    idx = index_for(rng, n)
    X.index = idx
    c.X = X
    c.y = pd.Series(y, index=idx)
    c.meta["columns"] = metas
    c.config = carver_config(rng, "binary" if c.kind == "multiclass" else c.kind)
    # cost of a fit ~ candidates x features x classes: keep multi-feature fits around a second
    tame(c.config, limit=max(40, int(1500 / (max(1, n_feat) * (n_classes - 1 if c.kind == "multiclass" else 1)))))
    if with_dev is None:
        with_dev = rng.random() < 0.25
    if with_dev:
        take = rng.choice(n, n, replace=True)
        c.X_dev = c.X.iloc[take].reset_index(drop=True)
        c.y_dev = c.y.iloc[take].reset_index(drop=True)
        c.meta["dev_mode"] = "bootstrap"
    return c


def make_carver(case, n_jobs=1, **override):
    """Instantiates the real carver class for a case (fresh copies of every mutable argument)."""
    from AutoCarver import BinaryCarver, ContinuousCarver, MulticlassCarver
    cfg = dict(case.config)
    cfg.update(override)
    kw = dict(min_freq=cfg["min_freq"], max_n_mod=cfg["max_n_mod"], min_freq_mod=cfg.get("min_freq_mod"),
              output_dtype=cfg["output_dtype"], dropna=cfg["dropna"], copy=cfg.get("copy", True), n_jobs=n_jobs,
              quantitative_features=list(case.quant), qualitative_features=list(case.qual), ordinal_features=list(case.ordinal),
              values_orders=case.orders_copy() if case.values_orders else None)
    if case.kind == "binary":
        return BinaryCarver(sort_by=cfg["sort_by"], **kw)
    if case.kind == "continuous":
        return ContinuousCarver(**kw)
    return MulticlassCarver(sort_by=cfg["sort_by"], **kw)


def make_discretizer(case, cls="Discretizer", n_jobs=1, copy=True):
    from AutoCarver.discretizers import Discretizer, QualitativeDiscretizer, QuantitativeDiscretizer
    mf = case.config["min_freq"]
    if cls == "Discretizer":
        return Discretizer(quantitative_features=list(case.quant), qualitative_features=list(case.qual), min_freq=mf,
                           ordinal_features=list(case.ordinal), values_orders=case.orders_copy() if case.values_orders else None,
                           copy=copy, n_jobs=n_jobs)
    if cls == "QuantitativeDiscretizer":
        return QuantitativeDiscretizer(quantitative_features=list(case.quant), min_freq=mf, copy=copy, n_jobs=n_jobs)
    if cls == "QualitativeDiscretizer":
        return QualitativeDiscretizer(qualitative_features=list(case.qual), min_freq=mf, ordinal_features=list(case.ordinal),
                                      values_orders=case.orders_copy() if case.values_orders else None, copy=copy, n_jobs=n_jobs)
    raise ValueError(cls)


def fit_kwargs(case):
    if case.X_dev is not None:
        return {"X_dev": case.X_dev, "y_dev": case.y_dev}
    return {}


def frame_to_json(df, y=None, max_rows=400):
    if df is None or len(df) > max_rows:
        return None
    out = {"index": [repr(i) for i in df.index], "columns": {c: [None if (isinstance(v, float) and v != v) else (v if isinstance(v, (str, int, float)) else repr(v)) for v in df[c].tolist()] for c in df.columns}}
    if y is not None:
        out["y"] = [v if isinstance(v, (str, int, float)) else repr(v) for v in pd.Series(y).tolist()]
    return out
