"""Independent oracle of the carving search (C01, reused by C02/C16): enumerates every candidate grouping of the base
modalities, recomputes measure and viability from the raw rows, and decides which fitted outcomes are acceptable.

Viability is three-valued (True / False / None = ambiguous): a frequency sitting exactly on the bound in exact
arithmetic but not in floats, rates that numpy.isclose calls equal but are not identical, and rank ties are ambiguous
and never decide a violation (DESIGN 1.5).
"""
import math
from fractions import Fraction

import numpy as np
from scipy.stats import rankdata

from . import interp, oracles

TOL = 1e-9


class SampleStats:
    """Per base bucket statistics of one sample (train or dev) for one stage (a set of rows)."""

    def __init__(self, kind, buckets, y, n_buckets, rows_mask):
        self.kind = kind
        b = np.asarray([(-1 if v is None else v) for v in buckets])
        y = np.asarray(y, float)
        b = b[rows_mask]
        y = y[rows_mask]
        self.n = int(len(b))
        self.count = np.array([int((b == i).sum()) for i in range(n_buckets)], float)
        if kind == "binary":
            self.n1 = np.array([float(y[b == i].sum()) for i in range(n_buckets)])
        else:
            self.sum = np.array([float(y[b == i].sum()) for i in range(n_buckets)])
            if self.n > 0:
                r = rankdata(y)
                self.ranksum = np.array([float(r[b == i].sum()) for i in range(n_buckets)])
                _, cnt = np.unique(y, return_counts=True)
                self.T = 1 - float((cnt.astype(float) ** 3 - cnt).sum()) / (float(self.n) ** 3 - self.n) if self.n > 1 else 0.0
            else:
                self.ranksum = np.zeros(n_buckets)
                self.T = 0.0

    def sizes(self, groups):
        return [float(sum(self.count[i] for i in g)) for g in groups]

    def rates(self, groups):
        out = []
        for g in groups:
            c = sum(self.count[i] for i in g)
            if c == 0:
                out.append(float("nan"))
            elif self.kind == "binary":
                out.append(float(sum(self.n1[i] for i in g)) / float(c))
            else:
                out.append(float(sum(self.sum[i] for i in g)) / float(c))
        return out

    def measure(self, groups, sort_by):
        sizes = self.sizes(groups)
        if self.kind == "binary":
            tab = np.array([[sizes[j] - sum(self.n1[i] for i in g), sum(self.n1[i] for i in g)] for j, g in enumerate(groups)], float)
            v, t = oracles.cramerv_T(tab)
            return v if sort_by == "cramerv" else t
        if any(s == 0 for s in sizes) or self.T == 0 or self.n < 2:
            return float("nan")
        n = self.n
        s = sum(sum(self.ranksum[i] for i in g) ** 2 / sz for g, sz in zip(groups, sizes))
        H = 12.0 / (n * (n + 1)) * s - 3 * (n + 1)
        return float(H / self.T)


def and3(*vals):
    if any(v is False for v in vals):
        return False
    if any(v is None for v in vals):
        return None
    return True


def freq_ok(sizes, n, mfm):
    """3-valued: every group holds at least mfm of the n rows."""
    res = True
    for s in sizes:
        fl = (s / n >= mfm) if n > 0 else False
        ex = (Fraction(int(s), int(n)) >= Fraction(repr(float(mfm)))) if n > 0 else False  # the decimal value the user wrote
        if fl != ex:
            if res is True:
                res = None
        elif not fl:
            return False
    return res


def distinct_ok(rates):
    """3-valued: order-adjacent groups have distinct rates (numpy.isclose reading vs exact reading)."""
    res = True
    for a, b in zip(rates[:-1], rates[1:]):
        if a != a or b != b:
            continue  # NaN rate (empty group): never close; the frequency test rejects the candidate anyway
        exact_equal = a == b
        close = bool(np.isclose(a, b))
        if exact_equal:
            return False
        if close:  # close but not identical
            res = None
    return res


def ranks_ok(ra, rb):
    """3-valued: same ranking of the groups by rate on both samples."""
    res = True
    n = len(ra)
    for i in range(n):
        for j in range(i + 1, n):
            a, b = ra[i] - ra[j], rb[i] - rb[j]
            if a != a or b != b:
                return False
            if (a < 0 < b) or (b < 0 < a):
                return False
            if a == 0 or b == 0:
                res = None
    return res


def evaluate(groups, train, dev, sort_by, mfm):
    """(measure, viable3) of one candidate grouping (list of lists of bucket indices, in order)"""
    m = train.measure(groups, sort_by)
    rt = train.rates(groups)
    v = and3(freq_ok(train.sizes(groups), train.n, mfm), distinct_ok(rt))
    if v is not False and dev is not None:
        rd = dev.rates(groups)
        vd = and3(freq_ok(dev.sizes(groups), dev.n, mfm), distinct_ok(rd), ranks_ok(rt, rd))
        v = and3(v, vd)
    return m, v


def mkey(m):
    return -math.inf if (m is None or m != m) else m


def possible_picks(cands):
    """cands: list of (measure, viable3, groups). Returns (list of candidates the search may legitimately pick,
    whether 'nothing viable' is a legitimate outcome)."""
    definite = [c for c in cands if c[1] is True]
    best_def = max((mkey(c[0]) for c in definite), default=None)
    picks = []
    for c in cands:
        if c[1] is False:
            continue
        if best_def is not None and mkey(c[0]) < best_def - TOL * max(1.0, abs(best_def)):
            continue
        picks.append(c)
    return picks, len(definite) == 0


def canon(groups):
    return tuple(sorted(tuple(sorted(g)) for g in groups))


class FeatureOracle:
    """Everything the C01 oracle knows about one feature of one case."""

    def __init__(self, kind, sort_by, mfm, max_n_mod, dropna, base_snap, quantitative, x_train, y_train, x_dev=None, y_dev=None, str_nan=interp.NAN):
        self.kind, self.sort_by, self.mfm, self.max_n_mod, self.dropna = kind, sort_by, mfm, max_n_mod, dropna
        self.base_snap = base_snap
        self.quant = quantitative
        self.nb = len(base_snap)
        self.bt = interp.groups_of(base_snap, x_train, quantitative, str_nan)
        self.bd = None if x_dev is None else interp.groups_of(base_snap, x_dev, quantitative, str_nan)
        self.nan_idx = interp.nan_group(base_snap, str_nan)
        self.unmapped_train = sum(1 for b in self.bt if b is None)
        self.unmapped_dev = 0 if self.bd is None else sum(1 for b in self.bd if b is None)
        self.nn = [i for i in range(self.nb) if i != self.nan_idx]
        bt = np.array([(-1 if b is None else b) for b in self.bt])
        self.has_nan_rows = self.nan_idx is not None and bool((bt == self.nan_idx).any())
        nonnan_t = bt != (self.nan_idx if self.nan_idx is not None else -99)
        self.train1 = SampleStats(kind, self.bt, y_train, self.nb, nonnan_t)
        self.train2 = SampleStats(kind, self.bt, y_train, self.nb, np.ones(len(bt), bool))
        self.dev1 = self.dev2 = None
        if self.bd is not None:
            bd = np.array([(-1 if b is None else b) for b in self.bd])
            nonnan_d = bd != (self.nan_idx if self.nan_idx is not None else -99)
            self.dev1 = SampleStats(kind, self.bd, y_dev, self.nb, nonnan_d)
            self.dev2 = SampleStats(kind, self.bd, y_dev, self.nb, np.ones(len(bd), bool))
        self.info = {}

    def stage1(self):
        cands = []
        for comp in oracles.compositions(len(self.nn), self.max_n_mod):
            groups = [[self.nn[i] for i in g] for g in comp]
            m, v = evaluate(groups, self.train1, self.dev1, self.sort_by, self.mfm)
            cands.append((m, v, groups))
        return cands

    def stage2(self, G):
        """candidates of the missing-value search started from the stage-1 grouping G (list of groups of buckets)"""
        cands = []
        for comp in oracles.compositions(len(G), self.max_n_mod):
            merged = [[b for gi in g for b in G[gi]] for g in comp]
            for j in range(len(merged)):
                gg = [list(x) for x in merged]
                gg[j] = gg[j] + [self.nan_idx]
                m, v = evaluate(gg, self.train2, self.dev2, self.sort_by, self.mfm)
                cands.append((m, v, gg))
            if len(merged) < self.max_n_mod:
                gg = [list(x) for x in merged] + [[self.nan_idx]]
                m, v = evaluate(gg, self.train2, self.dev2, self.sort_by, self.mfm)
                cands.append((m, v, gg))
        return cands

    def acceptable(self):
        """Returns (set of acceptable canonical partitions of base buckets, drop_acceptable, info)"""
        info = self.info
        c1 = self.stage1()
        info["n_candidates_stage1"] = len(c1)
        info["n_viable_stage1"] = sum(1 for c in c1 if c[1] is True)
        info["n_ambiguous_stage1"] = sum(1 for c in c1 if c[1] is None)
        p1, none1 = possible_picks(c1)
        info["stage1_picks"] = len(p1)
        ms = sorted((mkey(c[0]) for c in c1 if c[1] is True), reverse=True)
        info["measure_tie_at_top"] = len(ms) >= 2 and abs(ms[0] - ms[1]) <= TOL * max(1.0, abs(ms[0]))
        two_stage = self.dropna and self.has_nan_rows
        info["two_stage"] = two_stage
        self.c1 = c1
        if not two_stage:
            acc = set()
            for c in p1:
                g = [list(x) for x in c[2]]
                if self.nan_idx is not None:
                    g = g + [[self.nan_idx]]  # missing values stay a separate modality
                acc.add(canon(g))
            info["best_measure"] = max((mkey(c[0]) for c in p1), default=None)
            return acc, none1, info
        acc = set()
        drop_ok = none1
        n2 = 0
        best2 = None
        for c in p1:
            c2 = self.stage2(c[2])
            n2 += len(c2)
            p2, none2 = possible_picks(c2)
            drop_ok = drop_ok or none2
            for d in p2:
                acc.add(canon(d[2]))
                best2 = mkey(d[0]) if best2 is None else max(best2, mkey(d[0]))
        info["n_candidates_stage2"] = n2
        info["best_measure"] = best2
        return acc, drop_ok, info

    def fitted_partition(self, fitted_snap, x_train, str_nan=interp.NAN):
        """Partition of the observed base buckets induced by the fitted values_orders; problems as strings."""
        ft = interp.groups_of(fitted_snap, x_train, self.quant, str_nan)
        mp = {}
        for b, f in zip(self.bt, ft):
            if b is None:
                continue
            mp.setdefault(b, set()).add(f)
        if any(None in s for s in mp.values()):
            return None, "a training value belongs to no fitted group", mp
        split = [b for b, s in mp.items() if len(s) > 1]
        if split:
            return None, f"base modality {split[0]} ({self.base_snap[split[0]][0]!r}) is split across fitted groups {sorted(mp[split[0]])}", mp
        og = {}
        for b in sorted(mp):
            og.setdefault(next(iter(mp[b])), []).append(b)
        return canon(og.values()), None, mp

    def restrict(self, part, observed):
        return canon([[b for b in g if b in observed] for g in part if any(b in observed for b in g)])
