"""Workload of *fitted objects* shared by C03..C08, C16, C17: every estimator class, JSON-rebuilt objects,
probe frames and new-frame batteries."""
import json
import math

import numpy as np
import pandas as pd

from . import common, gen, interp

KINDS = ["carver", "Discretizer", "QuantitativeDiscretizer", "QualitativeDiscretizer"]


def object_case(rng, hostile=False, degenerate=False, allow_multiclass=True, n=None):
    """(case, which): a frame and the estimator class to fit on it."""
    r = rng.random()
    if r < 0.4:
        case = gen.single_feature_case(rng, hostile_names=True, with_dev=rng.random() < 0.2,
                                       quant_flavour=gen.pick(rng, [None, None, "jitter", "close4", "bigmag", "epoch"]) if hostile else gen.pick(rng, [None, None, "jitter"]))
    else:
        kinds = ["binary", "binary", "continuous"] + (["multiclass"] if allow_multiclass else [])
        case = gen.multi_feature_case(rng, kind=gen.pick(rng, kinds), hostile=hostile, degenerate=degenerate, n=n or int(gen.pick(rng, [60, 150, 300, 600])),
                                      with_dev=rng.random() < 0.15)
    which = gen.pick(rng, common.applicable_kinds(case), p=None)
    if case.kind == "multiclass" and which != "carver" and rng.random() < 0.5:
        which = "carver"
    if case.kind == "multiclass" and which != "carver":
        # plain discretizers order modalities by mean(y): they are documented for numeric targets only
        codes = {v: k for k, v in enumerate(sorted(set(case.y.tolist()), key=str))}
        case.y = case.y.map(codes).astype(int)
        if case.y_dev is not None:
            case.y_dev = case.y_dev.map(codes).astype(int)
        case.meta["target_recoded_for_discretizer"] = True
    return case, which


def fit_object(case, which, n_jobs=1):
    """Returns (fitted object or None, exception or None)"""
    obj, e = common.guarded(common.make_estimator, case, which, n_jobs)
    if e is not None:
        return None, e
    _, e = common.guarded(common.fit_any, case, obj)
    if e is not None:
        return None, e
    return obj, None


def y_for(case, which):
    """Discretizers accept any target kind; multiclass targets are given as-is (only the rate ordering uses y)."""
    return case.y


def json_reload(obj):
    """(reloaded object, dumped string) through the standard json module; always a fresh parsed dict."""
    from AutoCarver.carvers.base_carver import BaseCarver, load_carver
    from AutoCarver.discretizers.utils.base_discretizers import load_discretizer
    dumped = json.dumps(obj.to_json())
    loader = load_carver if (isinstance(obj, BaseCarver) or getattr(obj, "_history", None) is not None) else load_discretizer
    return loader(json.loads(dumped)), dumped


def maybe_edit(rng, case, obj, which, p=0.3, categorical=True):
    """Applies 1..2 valid update_discretizer edits (as generated for C17) to a fitted Binary/Continuous carver.
    Returns the list of (description, feature, kind) applied."""
    done = []
    if which != "carver" or case.kind == "multiclass" or not obj.features or rng.random() >= p:
        return done
    from .props import c17
    for _ in range(int(rng.integers(1, 3))):
        cands = [c for c in c17.candidate_edits(case, obj, rng) if categorical or not (c[5] in ("group_qual", "replace") and c[1] in case.qual)]
        if not cands:
            break
        kinds = sorted({c[5] for c in cands})
        kind = gen.pick(rng, kinds)
        pool = [c for c in cands if c[5] == kind]
        desc, f, mode, discarded, kept, kind = pool[int(rng.integers(len(pool)))]
        _, e = common.guarded(obj.update_discretizer, f, mode, discarded, kept)
        if e is None:
            done.append((desc, f, kind))
    return done


def feature_kind(obj, f):
    return "quant" if f in obj.quantitative_features else "qual"


def raw_column_of(obj, f):
    """raw DataFrame column feeding fitted feature f (MulticlassCarver casts 'f' into 'f_c')"""
    for raw, casted in obj.features_casting.items():
        if f in casted:
            return raw
    return f


def probe_values(snap, str_nan=interp.NAN):
    """Sorted probe points for a quantitative feature: boundaries, float neighbours, midpoints, extremes."""
    bounds = sorted({float(m) for _, mem in snap for m in mem if not isinstance(m, str) and math.isfinite(float(m))})
    pts = set()
    for b in bounds:
        pts.update([b, float(np.nextafter(b, -np.inf)), float(np.nextafter(b, np.inf))])
    for a, b in zip(bounds[:-1], bounds[1:]):
        pts.add(a + (b - a) / 2)
    if bounds:
        pts.update([bounds[0] - 1.0, bounds[-1] + 1.0, bounds[0] - abs(bounds[0]) * 0.5 - 1e-9, bounds[-1] + abs(bounds[-1]) * 0.5 + 1e-9])
    pts.update([0.0, -0.0, 5e-324, -5e-324, 1e300, -1e300, 1.7e308, -1.7e308, 1.0, -1.0])
    return sorted(p for p in pts if math.isfinite(p)), bounds


def filler_row(case, obj):
    """A training row usable as filler for the other columns of a probe frame."""
    return case.X.iloc[0]


def probe_frame(case, obj, f, values, index=None):
    """Frame with column raw(f) = values and every other column repeated from a training row."""
    raw = raw_column_of(obj, f)
    n = len(values)
    base = filler_row(case, obj)
    data = {}
    for c in case.X.columns:
        if c == raw:
            data[c] = list(values)
        else:
            data[c] = [base[c]] * n
    df = pd.DataFrame(data, index=index if index is not None else pd.RangeIndex(n))
    for c in case.X.columns:
        if c != raw:
            try:
                df[c] = df[c].astype(case.X[c].dtype)
            except (TypeError, ValueError):
                pass
    return df


def label_set(obj, f):
    labs = set(common.label_key(v) for v in obj.labels_per_values[f].values())
    return labs


def new_frames(rng, case, obj, max_frames=12):
    """Battery of new frames for a fitted object. Each item: (description, frame, expectation) where expectation is
    {'feature': {row position: 'default'|'known'|'reject'|'nan_known'|'nan_reject'}} computed by the caller from
    values_orders; here we only generate the frames and say which raw column was perturbed and how."""
    out = []
    X = case.X
    n = len(X)
    feats = list(obj.features)
    if not feats:
        return out

    def take(k):
        idx = rng.choice(n, min(k, n), replace=False)
        return X.iloc[idx].copy()

    # 0. training subset untouched, shuffled columns, extra column
    fr = take(15)
    fr = fr[list(rng.permutation(list(fr.columns)))]
    fr["extra_col"] = 1.0
    out.append(("subset_shuffled_columns_extra", fr, None))
    # 1. single row / empty
    out.append(("single_row", X.iloc[[int(rng.integers(n))]].copy(), None))
    out.append(("empty", X.iloc[0:0].copy(), None))
    # (a frame lacking a fitted column is outside C05's quantifier -- "frames having the fitted columns"; C19 covers it)
    # per feature perturbations
    order = list(rng.permutation(len(feats)))
    for j in order[:4]:
        f = feats[j]
        raw = raw_column_of(obj, f)
        snap = interp.snapshot(obj.values_orders[f])
        if feature_kind(obj, f) == "quant":
            pts, bounds = probe_values(snap)
            sel = [pts[i] for i in sorted(rng.choice(len(pts), min(12, len(pts)), replace=False))]
            fr = take(len(sel))
            fr = fr.iloc[:len(sel)].copy()
            sel = sel[:len(fr)]
            fr[raw] = np.array(sel, dtype=float)
            out.append((f"quant_probe:{f}", fr, {"perturbed": raw}))
            fr2 = take(4)
            fr2[raw] = fr2[raw].astype(float)
            fr2.iloc[0, fr2.columns.get_loc(raw)] = np.nan
            out.append((f"nan_injected:{f}", fr2, {"perturbed": raw}))
            fr4 = take(5)
            fr4[raw] = fr4[raw].astype(object)  # finite numbers held in an object column (frames built from records / JSON / SQL rows)
            if rng.random() < 0.5 and interp.nan_group(snap, obj.str_nan) is not None:
                fr4.iloc[0, fr4.columns.get_loc(raw)] = None
            out.append((f"object_dtype:{f}", fr4, {"perturbed": raw}))
            if rng.random() < 0.5 and bounds:
                fr3 = take(4)
                fr3[raw] = np.array([int(round(b)) for b in (bounds * 4)[:len(fr3)]], dtype=np.int64)
                out.append((f"ints_for_float:{f}", fr3, {"perturbed": raw}))
        else:
            fr = take(6).astype({raw: object})
            unseen = gen.pick(rng, ["__never_seen__", "zzz", 987654, 3.25, "987654", " "])
            # preferably a value that is unknown to f but known elsewhere in the frame (another feature, a non-feature column)
            known_here = {interp.str_form(m) for _, mem in snap for m in mem}
            elsewhere = [v for c in X.columns if c != raw and X[c].dtype == object for v in X[c].dropna().unique()[:20] if isinstance(v, str) and v not in known_here]
            if elsewhere and rng.random() < 0.7:
                unseen = elsewhere[int(rng.integers(len(elsewhere)))]
            fr.iloc[0, fr.columns.get_loc(raw)] = unseen
            out.append((f"unseen_category:{f}", fr, {"perturbed": raw}))
            fr2 = take(4).astype({raw: object})
            fr2.iloc[0, fr2.columns.get_loc(raw)] = np.nan
            out.append((f"nan_injected:{f}", fr2, {"perturbed": raw}))
    return out[:max_frames]


def expected_outcome(obj, frame):
    """From values_orders alone: ('reject', feature, reason) for the first... all rejecting features, or ('accept', {feature: [group idx per row]}).
    Returns (rejecting {feature: reason}, groups {feature: [idx]})."""
    rejecting = {}
    groups = {}
    for f in obj.features:
        raw = raw_column_of(obj, f)
        if raw not in frame.columns:
            rejecting[f] = "missing column"
            continue
        snap = interp.snapshot(obj.values_orders[f])
        vals = frame[raw].tolist()
        quant = feature_kind(obj, f) == "quant"
        gi = []
        for v in vals:
            if interp.is_nan(v):
                g = interp.nan_group(snap, obj.str_nan)
                if g is None:
                    rejecting[f] = "missing value in a feature that had none at fit"
                gi.append(g)
            elif quant:
                if isinstance(v, str):
                    rejecting[f] = "string in quantitative feature"
                    gi.append(None)
                else:
                    gi.append(interp.quant_group(snap, float(v), obj.str_nan))
            else:
                g = interp.qual_group(snap, v, obj.str_nan)
                if g is None:
                    d = next((i for i, (_, mem) in enumerate(snap) if any(isinstance(m, str) and m == obj.str_default for m in mem)), None) if obj.str_default else None
                    if d is None:
                        rejecting[f] = f"unseen category {v!r} without default group"
                    g = d
                gi.append(g)
        groups[f] = gi
    return rejecting, groups
