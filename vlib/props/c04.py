"""C04 -- transform is exactly the mapping described by the fitted values_orders."""
import math

import numpy as np

from .. import common, fitted, gen, interp

ID = "C04"
RULE = ("fitted objects of every class (carvers incl. Multiclass, Discretizer family, half of them rebuilt from JSON), both "
        "output dtypes and dropna values, frames with boundaries differing beyond the 4th significant digit, float32 / int / "
        "numeric-valued categories. transform(X_train) is compared row by row with an independent interpreter of "
        "values_orders (first group whose upper bound >= x; membership by raw value then string form; NaN -> group of the "
        "sentinel); labels: one per group, distinct groups => distinct labels, float labels = rank in fitted order, "
        "qualitative str label = leader, quantitative str label = formatted bounds of the group. Non-trivial: a feature with >= 2 "
        "groups; distinct by data+config+class.")
ASSUMPTIONS = [
    "a quantitative 'str' label is 'lo < x <= hi' where hi/lo are the group's and the previous group's leaders printed in scientific notation with the label's own number of digits",
    "int64 vs float64 of equal labels is a pandas NaN up-cast artefact, not a difference",
    "with dropna=False the row of a missing value stays missing whatever group the sentinel is in",
]
_BD = "AutoCarver/discretizers/utils/base_discretizers.py"
ANCHORS = [(_BD, "transform_quantitative_feature"), (_BD, "BaseDiscretizer._transform_qualitative"), (_BD, "BaseDiscretizer._get_labels_per_values"),
           (_BD, "format_quantiles"), (_BD, "get_labels"), ("AutoCarver/discretizers/utils/type_discretizers.py", "fit_feature")]
DECIDING_ANCHORS = [(_BD, "transform_quantitative_feature"), (_BD, "BaseDiscretizer._get_labels_per_values")]
N = {"quick": 1000, "thorough": 20000}
REQUIRED_COUNTERS = {"quick": {"rows_compared": 50000, "features_checked": 600, "close_boundaries_features": 10, "numeric_category_features": 15},
                     "thorough": {"rows_compared": 1000000, "features_checked": 12000, "close_boundaries_features": 200, "numeric_category_features": 300}}


def n_cases(tier):
    return N[tier]


def budget_s(tier):
    return 900 if tier == "quick" else 7200


def min_nontrivial(tier):
    return 200 if tier == "quick" else 4000


def parse_label(label):
    """'lo < x <= hi' / 'x <= hi' / 'lo < x' -> (lo_str, hi_str)"""
    if not isinstance(label, str):
        return None
    if " < x <= " in label:
        lo, hi = label.split(" < x <= ")
        return lo, hi
    if label.startswith("x <= "):
        return None, label[len("x <= "):]
    if label.endswith(" < x"):
        return label[:-len(" < x")], None
    return None


def same_format(value, text):
    """text is value printed in scientific notation with text's own number of digits"""
    try:
        mant = text.split("e")[0]
        digits = len(mant.split(".")[1]) if "." in mant else 0
        return f"{float(value):.{digits}e}" == text
    except Exception:  # noqa
        return False


def check_feature(case, obj, f, out, counters):
    raw = fitted.raw_column_of(obj, f)
    snap = interp.snapshot(obj.values_orders[f])
    quant = fitted.feature_kind(obj, f) == "quant"
    values = case.X[raw].tolist()
    labels = out[f].tolist()
    exp = interp.groups_of(snap, values, quant, obj.str_nan)
    dropna = obj.features_dropna.get(f, obj.dropna)
    probs = []
    counters["rows_compared"] += len(values)
    group_labels = {}
    for pos, (v, g, l) in enumerate(zip(values, exp, labels)):
        if interp.is_nan(v):
            counters["nan_rows"] += 1
            if g is None:
                probs.append(f"row {pos}: missing value but no group holds the sentinel")
                break
            if not dropna:
                if not interp.is_nan(l):
                    probs.append(f"row {pos}: missing value became {l!r} although dropna=False")
                    break
                continue
        if g is None:
            probs.append(f"row {pos}: value {v!r} seen at fit belongs to no group of values_orders")
            break
        if interp.is_nan(l):
            probs.append(f"row {pos}: value {v!r} (group {g}) transformed to a missing value")
            break
        group_labels.setdefault(g, set()).add(common.label_key(l))
    if probs:
        return probs
    for g, ls in group_labels.items():
        if len(ls) > 1:
            probs.append(f"group {g} ({snap[g][0]!r}) received several labels {sorted(ls)}")
    inv = {}
    for g, ls in group_labels.items():
        for l in ls:
            inv.setdefault(l, set()).add(g)
    for l, gs in inv.items():
        if len(gs) > 1:
            probs.append(f"distinct groups {sorted(gs)} ({[repr(snap[g][0]) for g in sorted(gs)]}) share the label {l}")
    # labels of *all* groups (also those without training rows) must be pairwise distinct
    lpv = obj.labels_per_values[f]
    by_group = {}
    for gi, (leader, mem) in enumerate(snap):
        for m in mem:
            if m in lpv:
                by_group.setdefault(gi, set()).add(common.label_key(lpv[m]))
    flat = {}
    for gi, ls in by_group.items():
        if len(ls) != 1:
            probs.append(f"labels_per_values gives group {gi} the labels {sorted(ls)}")
        for l in ls:
            flat.setdefault(l, set()).add(gi)
    for l, gs in flat.items():
        if len(gs) > 1 and not (not dropna and l == common.label_key(obj.str_nan)):
            probs.append(f"labels_per_values gives groups {sorted(gs)} the same label {l}")
    if probs:
        return probs
    # independent recomputation of the label text/rank
    if obj.output_dtype == "float":
        ranks = interp.float_labels(snap, obj.str_nan)
        for g, ls in group_labels.items():
            l = next(iter(ls))
            if l != ("n", float(ranks[g])):
                probs.append(f"float label of group {g} is {l}, expected its rank {ranks[g]} in the fitted order")
    elif not quant:
        for g, ls in group_labels.items():
            l = next(iter(ls))
            if l != ("s", str(snap[g][0])) and l != common.label_key(snap[g][0]):
                probs.append(f"label of qualitative group {g} is {l}, expected its leader {snap[g][0]!r}")
    else:
        numeric = [i for i, (l, _) in enumerate(snap) if not isinstance(l, str)]
        for g, ls in group_labels.items():
            l = next(iter(ls))
            if isinstance(snap[g][0], str):
                if l != ("s", obj.str_nan):
                    probs.append(f"label of the missing-value group is {l}")
                continue
            parsed = parse_label(l[1]) if l[0] == "s" else None
            if parsed is None:
                probs.append(f"quantitative label {l} of group {g} is not an interval")
                continue
            lo, hi = parsed
            if len(numeric) == 1:
                continue  # a single interval: the library prints 'x <= nan'; the statement does not prescribe its text
            k = numeric.index(g)
            hi_val = snap[g][0]
            lo_val = snap[numeric[k - 1]][0] if k > 0 else None
            if (hi is None) != (math.isinf(float(hi_val))):
                probs.append(f"label {l[1]!r} of group {g}: upper bound does not match leader {hi_val!r}")
            elif hi is not None and not same_format(hi_val, hi):
                probs.append(f"label {l[1]!r} of group {g}: upper bound is not the leader {hi_val!r}")
            if (lo is None) != (lo_val is None):
                probs.append(f"label {l[1]!r} of group {g}: lower bound does not match previous leader {lo_val!r}")
            elif lo is not None and not same_format(lo_val, lo):
                probs.append(f"label {l[1]!r} of group {g}: lower bound is not the previous leader {lo_val!r}")
    return probs


def run_case(tier, seed, i):
    rng = gen.rng_for(ID, tier, seed, i)
    case, which = fitted.object_case(rng, hostile=rng.random() < 0.45)
    counters = {"rows_compared": 0, "nan_rows": 0, "features_checked": 0, "close_boundaries_features": 0, "numeric_category_features": 0, "json_rebuilt": 0}
    tags = [which, case.kind]
    sample = case.describe()
    sample["estimator"] = which
    obj, e = fitted.fit_object(case, which)
    if e is not None:
        return {"status": "skip", "nontrivial": False, "tags": tags + ["fit_" + ("assertion" if common.is_assertion(e) else "internal_error:" + common.exc_name(e))], "counters": counters, "sample": sample}
    edits = fitted.maybe_edit(rng, case, obj, which, p=0.3)
    if edits:
        tags.append("edited")
        counters["edited_objects"] = 1
        sample["edits"] = [d for d, _, _ in edits]
    if rng.random() < 0.4:
        rel, e = common.guarded(fitted.json_reload, obj)
        if e is None:
            obj = rel[0]
            counters["json_rebuilt"] += 1
            tags.append("json_rebuilt")
    if rng.random() < 0.5 and obj.features:
        # transform must follow values_orders whatever read-only views were consulted before
        common.guarded(obj.summary)
        if rng.random() < 0.5:
            common.guarded(obj.history)
        tags.append("views_consulted_first")
    tags.append("dtype_" + str(obj.output_dtype))
    tags.append("dropna_" + str(obj.dropna))
    out, e = common.guarded(obj.transform, case.X)
    if e is not None:
        return {"status": "violation", "nontrivial": True, "key": common.case_hash(case, which), "tags": tags, "counters": counters, "sample": sample,
                "violations": [{"kind": "transform_train_raised", "msg": f"transform(X_train) raised {common.exc_name(e)}: {e}"[:300], "mechanism": None}]}
    viols = []
    nontrivial = False
    for f in list(obj.features):
        raw = fitted.raw_column_of(obj, f)
        counters["features_checked"] += 1
        if len(obj.values_orders[f]) >= 2:
            nontrivial = True
        col = case.X[raw]
        if fitted.feature_kind(obj, f) == "quant":
            fin = sorted({float(l) for l in obj.values_orders[f] if not isinstance(l, str) and math.isfinite(float(l))})
            if any(f"{a:.3e}" == f"{b:.3e}" for a, b in zip(fin[:-1], fin[1:])):
                counters["close_boundaries_features"] += 1
        elif any(not isinstance(v, str) and not interp.is_nan(v) for v in col.tolist()):
            counters["numeric_category_features"] += 1
        if f not in out.columns:
            viols.append({"kind": "feature_missing_from_output", "feature": f, "msg": f"column {f} missing from the output", "mechanism": None})
            continue
        for p in check_feature(case, obj, f, out, counters)[:2]:
            viols.append({"kind": "transform_differs_from_values_orders", "feature": f, "msg": f"{f}: {p}", "mechanism": None,
                          "detail": {"values_orders": [(repr(l), [repr(m) for m in mem][:10]) for l, mem in interp.snapshot(obj.values_orders[f])][:12]}})
    sample["fitted_features"] = list(obj.features)
    if viols:
        sample["frame"] = gen.frame_to_json(case.X, case.y)
    return {"status": "violation" if viols else "ok", "nontrivial": nontrivial, "key": common.case_hash(case, which + str("json_rebuilt" in tags) + "|".join(d for d, _, _ in edits)),
            "tags": tags, "counters": counters, "violations": viols, "sample": sample}
