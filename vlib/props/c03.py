"""C03 -- grouping preserves each feature's order (contiguity, monotone step-function transform)."""
import math

import numpy as np
import pandas as pd

from .. import common, fitted, gen, interp

ID = "C03"
RULE = ("fitted objects of every class (three carvers, Discretizer, Quantitative/QualitativeDiscretizer, half of them rebuilt "
        "from JSON) on single- and multi-feature frames; (i) structural validation of values_orders (quantitative: strictly "
        "increasing leaders ending with inf, members inside (previous leader, leader]; ordinal: groups are runs of consecutive "
        "ranks of the user ranking, in ranking order; categorical: groups' training-rate ranges do not interleave); (ii) probe "
        "frames (boundaries, nextafter up/down, midpoints, extremes, 0, denormals, +-1e300) transformed by the real object: "
        "labels monotone in x, constant inside (b_i, b_i+1], switching exactly after group boundaries, defined on the whole "
        "line; ordinal labels monotone in rank. Non-trivial: object with a feature of >= 2 groups; distinct by data+config+class.")
ASSUMPTIONS = [
    "categorical order: modalities rarer than min_freq are one pooled modality; ties of rates may be ordered either way",
    "categorical contiguity is checked against the target the estimator was fitted with (per class indicator for MulticlassCarver)",
    "for 'str' output monotonicity means: along increasing x a label never reappears after a different label",
]
_BD = "AutoCarver/discretizers/utils/base_discretizers.py"
ANCHORS = [(_BD, "transform_quantitative_feature"), (_BD, "BaseDiscretizer._transform_qualitative"), (_BD, "convert_to_values"),
           ("AutoCarver/discretizers/utils/qualitative_discretizers.py", "find_common_modalities"),
           ("AutoCarver/discretizers/utils/qualitative_discretizers.py", "CategoricalDiscretizer.fit"),
           ("AutoCarver/carvers/base_carver.py", "order_apply_combination")]
DECIDING_ANCHORS = [(_BD, "transform_quantitative_feature")]
N = {"quick": 500, "thorough": 12000}
REQUIRED_COUNTERS = {"quick": {"probe_points": 5000, "quant_features": 150, "ordinal_features": 40, "categorical_features": 40},
                     "thorough": {"probe_points": 100000, "quant_features": 3000, "ordinal_features": 800, "categorical_features": 800}}


def n_cases(tier):
    return N[tier]


def budget_s(tier):
    return 900 if tier == "quick" else 7200


def min_nontrivial(tier):
    return 120 if tier == "quick" else 2500


def structural_quant(snap, str_nan):
    probs = []
    leaders = [l for l, _ in snap if not isinstance(l, str)]
    strs = [l for l, _ in snap if isinstance(l, str)]
    if any(s != str_nan for s in strs):
        probs.append(f"non-numeric leader {strs!r} in a quantitative feature")
    if not leaders:
        return probs
    for a, b in zip(leaders[:-1], leaders[1:]):
        if not a < b:
            probs.append(f"leaders not strictly increasing: {a!r} then {b!r}")
    if not (isinstance(leaders[-1], (float, np.floating)) and math.isinf(leaders[-1]) and leaders[-1] > 0):
        probs.append(f"last boundary is {leaders[-1]!r}, not +inf")
    prev = -math.inf
    for l, mem in snap:
        if isinstance(l, str):
            continue
        for m in mem:
            if isinstance(m, str):
                continue
            if not (prev < m <= l):
                probs.append(f"member {m!r} outside ({prev!r}, {l!r}]")
        prev = l
    # groups appear in increasing order in the list
    idx = [i for i, (l, _) in enumerate(snap) if not isinstance(l, str)]
    if idx != sorted(idx):
        probs.append("numeric groups out of order")
    return probs


def structural_ordinal(snap, ranking, str_nan):
    probs = []
    pos = {v: i for i, v in enumerate(ranking)}
    last_hi = -1
    for l, mem in snap:
        ranks = sorted(pos[m] for m in mem if isinstance(m, str) and m in pos)
        if not ranks:
            continue
        # other groups' members must not fall inside [min, max]
        lo, hi = ranks[0], ranks[-1]
        inside = [r for l2, mem2 in snap if l2 is not l for r in (pos[m] for m in mem2 if isinstance(m, str) and m in pos) if lo < r < hi]
        if inside:
            probs.append(f"group {l!r} is not a run of consecutive ranks: ranks {ranks}, foreign ranks inside {sorted(inside)}")
        if lo < last_hi:
            probs.append(f"group {l!r} (ranks {ranks}) appears after a group reaching rank {last_hi}")
        last_hi = max(last_hi, hi)
    return probs


def structural_categorical(snap, values, y, min_freq, str_nan, str_default):
    """Groups must be runs of consecutive modalities in training-rate order (rare values pooled)."""
    n = len(values)
    yv = np.asarray(y, float)
    keyed = {}
    for i, v in enumerate(values):
        if interp.is_nan(v):
            continue
        keyed.setdefault(interp.str_form(v), []).append(i)
    # pooled default modality
    mod_rows = {}
    for k, rows in keyed.items():
        name = k if len(rows) / n >= min_freq else str_default
        mod_rows.setdefault(name, []).extend(rows)
    rate = {k: float(yv[rows].mean()) for k, rows in mod_rows.items()}
    probs = []
    ranges = []
    for l, mem in snap:
        mods = {m for m in mem if isinstance(m, str) and m in rate}
        if isinstance(l, str) and l == str_nan and not mods:
            continue
        if not mods:
            continue
        rs = [rate[m] for m in mods]
        ranges.append((l, min(rs), max(rs), sorted(mods)))
    for a in range(len(ranges)):
        for b in range(a + 1, len(ranges)):
            la, lo_a, hi_a, ma = ranges[a]
            lb, lo_b, hi_b, mb = ranges[b]
            # group a precedes b in fitted order: every rate of a must be <= every rate of b
            if hi_a > lo_b + 1e-12 * max(1.0, abs(hi_a)):
                probs.append(f"groups {la!r}{ma} (rates up to {hi_a:.6g}) and {lb!r}{mb} (rates from {lo_b:.6g}) interleave in training target-rate order")
    return probs


def probe_check(case, obj, f, snap, counters):
    """Behavioural check on a probe frame for a quantitative feature. Returns problems."""
    pts, bounds = fitted.probe_values(snap)
    frame = fitted.probe_frame(case, obj, f, pts, index=pd.Index(np.arange(len(pts))[::-1] * 3 + 11))  # not the default RangeIndex
    out, e = common.guarded(obj.transform, frame)
    if e is not None:
        return [f"transform of the probe frame raised {common.exc_name(e)}: {str(e)[:200]}"]
    labels = out[f].tolist()
    counters["probe_points"] += len(pts)
    probs = []
    exp = [interp.quant_group(snap, x, obj.str_nan) for x in pts]
    if any(g is None for g in exp):
        probs.append("a probe value belongs to no interval of values_orders")
        return probs
    if any(interp.is_nan(l) for l in labels):
        i = next(i for i, l in enumerate(labels) if interp.is_nan(l))
        probs.append(f"transform undefined (NaN) at x={pts[i]!r}")
        return probs
    # step function: label constant per expected interval, distinct between consecutive distinct intervals,
    # a label never reappears once left (monotone), numeric labels non-decreasing
    seen = []
    for x, g, l in zip(pts, exp, labels):
        k = common.label_key(l)
        if seen and seen[-1][0] == g:
            if seen[-1][1] != k:
                probs.append(f"label changes inside one interval: group {g} has {seen[-1][1]} and {k} (x={x!r})")
                break
        else:
            if any(k == kk for _, kk in seen):
                # the same label for two different groups is allowed only if ... never: monotone step function must move on
                prev_g = [gg for gg, kk in seen if kk == k]
                probs.append(f"label {k} reappears at x={x!r} (group {g}) after groups {prev_g}: not monotone / boundary not respected")
                break
            seen.append((g, k))
    if not probs and obj.output_dtype == "float":
        nums = [float(l) for l in labels]
        for (x1, a), (x2, b) in zip(zip(pts[:-1], nums[:-1]), zip(pts[1:], nums[1:])):
            if a > b:
                probs.append(f"float label decreases: f({x1!r})={a} > f({x2!r})={b}")
                break
    # right-closedness at every group boundary (leader)
    if not probs:
        lab = dict(zip(pts, labels))
        leaders = [float(l) for l, _ in snap if not isinstance(l, str) and math.isfinite(float(l))]
        for b in leaders:
            up = float(np.nextafter(b, np.inf))
            if b in lab and up in lab and common.cell_equal(lab[b], lab[up]):
                probs.append(f"boundary {b!r} not right-closed: f(b)={lab[b]!r} equals f(nextafter(b))={lab[up]!r}")
                break
        counters["boundaries_probed"] += len(leaders)
    return probs


def ordinal_probe(case, obj, f, snap, ranking, counters):
    vals = [v for v in ranking]
    frame = fitted.probe_frame(case, obj, f, vals)
    frame[fitted.raw_column_of(obj, f)] = np.array(vals, dtype=object)
    out, e = common.guarded(obj.transform, frame)
    if e is not None:
        return [f"transform of all ranking values raised {common.exc_name(e)}: {str(e)[:200]}"]
    counters["probe_points"] += len(vals)
    labels = out[f].tolist()
    if obj.output_dtype == "float":
        nums = [float(l) for l in labels]
        for (v1, a), (v2, b) in zip(zip(vals[:-1], nums[:-1]), zip(vals[1:], nums[1:])):
            if a > b:
                return [f"float label decreases along the ranking: {v1!r}->{a}, {v2!r}->{b}"]
    else:
        seen = []
        for v, l in zip(vals, labels):
            k = common.label_key(l)
            if seen and seen[-1] == k:
                continue
            if k in seen:
                return [f"label {k} reappears along the ranking at {v!r}"]
            seen.append(k)
    return []


def run_case(tier, seed, i):
    rng = gen.rng_for(ID, tier, seed, i)
    case, which = fitted.object_case(rng, hostile=rng.random() < 0.3)
    counters = {"probe_points": 0, "boundaries_probed": 0, "quant_features": 0, "ordinal_features": 0, "categorical_features": 0, "json_rebuilt": 0}
    tags = [which, case.kind]
    sample = case.describe()
    sample["estimator"] = which
    obj, e = fitted.fit_object(case, which)
    if e is not None:
        return {"status": "skip", "nontrivial": False, "tags": tags + ["fit_" + ("assertion" if common.is_assertion(e) else "internal_error:" + common.exc_name(e))], "counters": counters, "sample": sample}
    fit_obj = obj
    # objects edited through valid update_discretizer calls (ordered features only: a user may merge any two categories)
    edits = fitted.maybe_edit(rng, case, obj, which, p=0.25, categorical=False)
    if edits:
        tags.append("edited")
        counters["edited_objects"] = 1
        sample["edits"] = [d for d, _, _ in edits]
    if rng.random() < 0.5:
        rel, e = common.guarded(fitted.json_reload, obj)
        if e is None:
            obj = rel[0]
            counters["json_rebuilt"] += 1
            tags.append("json_rebuilt")
    viols = []
    nontrivial = False
    min_freq = case.config["min_freq"]
    for f in list(obj.features):
        raw = fitted.raw_column_of(obj, f)
        snap = interp.snapshot(obj.values_orders[f])
        ngroups = len(snap)
        if ngroups >= 2:
            nontrivial = True
        if fitted.feature_kind(obj, f) == "quant":
            counters["quant_features"] += 1
            probs = structural_quant(snap, obj.str_nan)
            if not probs:
                probs = probe_check(case, obj, f, snap, counters)
            kind = "quantitative"
        elif raw in case.ordinal:
            counters["ordinal_features"] += 1
            probs = structural_ordinal(snap, case.values_orders[raw], obj.str_nan)
            if not probs:
                probs = ordinal_probe(case, obj, f, snap, case.values_orders[raw], counters)
            kind = "ordinal"
        else:
            counters["categorical_features"] += 1
            y = case.y
            if case.kind == "multiclass":
                if f != raw:
                    y = (case.y.astype(str) == f[len(raw) + 1:]).astype(int)
                else:
                    y = None  # a Discretizer fitted with a non-numeric multiclass target: rate order undefined
                    try:
                        y = case.y.astype(float)
                    except (TypeError, ValueError):
                        y = None
            probs = [] if y is None else structural_categorical(snap, case.X[raw].tolist(), y.tolist(), min_freq, obj.str_nan, obj.str_default)
            kind = "categorical"
        for p in probs[:2]:
            viols.append({"kind": f"order_not_preserved_{kind}", "feature": f, "msg": f"{f}: {p}", "mechanism": None,
                          "detail": {"values_orders": [(repr(l), [repr(m) for m in mem][:10]) for l, mem in snap]}})
    sample["fitted_features"] = list(obj.features)
    if viols:
        sample["frame"] = gen.frame_to_json(case.X, case.y)
    return {"status": "violation" if viols else "ok", "nontrivial": nontrivial, "key": common.case_hash(case, which + str("json_rebuilt" in tags)),
            "tags": tags, "counters": counters, "violations": viols, "sample": sample}
