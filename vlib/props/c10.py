"""C10 -- features are processed independently; parallel equals sequential (differential over pairs of real executions)."""
import json
import os
import pickle
import subprocess
import sys
import tempfile
import time

import numpy as np
import pandas as pd

from .. import common, env, gen, interp

ID = "C10"
RULE = ("multi-feature frames (2..6 features of all kinds) fitted with a carver or a Discretizer; the canonical dump of every "
        "feature (values_orders leaders+members, transform(X) labels) is compared between the reference fit and (i) fits on "
        "feature subsets (each feature alone / a random half), (ii) fits with permuted feature lists and permuted DataFrame "
        "columns, (iii) the same fit in fresh interpreters with other PYTHONHASHSEED values (one subprocess per hash seed), (iv) "
        "fits and transforms with n_jobs in {2,4} while a seed-chosen 0-30 ms delay per feature is injected in the worker "
        "functions so that completion order varies. The evidence records the distinct internal feature iteration orders and "
        "the distinct worker completion orders observed. Non-trivial: reference fit keeps >= 2 features; distinct by data+config.")
ASSUMPTIONS = [
    "worker crashes are out of scope; completion orders are those the injected delays produce, not all interleavings",
    "multiprocessing start method is fork (the injected delay wrappers are inherited by the workers)",
]
_BD = "AutoCarver/discretizers/utils/base_discretizers.py"
ANCHORS = [(_BD, "BaseDiscretizer._transform_quantitative"), ("AutoCarver/discretizers/utils/quantitative_discretizers.py", "ContinuousDiscretizer.fit"),
           ("AutoCarver/discretizers/utils/type_discretizers.py", "StringDiscretizer.fit"), ("AutoCarver/carvers/base_carver.py", "BaseCarver.fit"),
           ("AutoCarver/carvers/base_carver.py", "BaseCarver._update_orders")]
DECIDING_ANCHORS = [(_BD, "BaseDiscretizer._transform_quantitative")]
N = {"quick": 64, "thorough": 640}
HASH_SEEDS = {"quick": [1, 2, 3, 12345], "thorough": [1, 2, 3, 4, 5, 6, 7, 8, 9, 10, 11, 12, 13, 14, 15, 12345]}
REQUIRED_COUNTERS = {"quick": {"hash_seed_runs": 150, "n_jobs_fits": 100, "subset_fits": 100, "permuted_fits": 50, "cases_with_2plus_iteration_orders": 20, "cases_with_2plus_completion_orders": 10},
                     "thorough": {"hash_seed_runs": 6000, "n_jobs_fits": 1000, "subset_fits": 1000, "permuted_fits": 500, "cases_with_2plus_iteration_orders": 200, "cases_with_2plus_completion_orders": 100}}
COMPLETION_LOG = None


def n_cases(tier):
    return N[tier]


def budget_s(tier):
    return 1200 if tier == "quick" else 7200


def min_nontrivial(tier):
    return 30 if tier == "quick" else 300


def chained_case(rng):
    """2..4 qualitative features sharing one hierarchy, for ChainedDiscretizer (modalities rare in one feature, frequent in another)"""
    from . import c18
    leaves, levels = c18.make_hierarchy(rng)
    n = int(gen.pick(rng, [100, 200, 400]))
    c = gen.Case()
    cols = {}
    for j in range(int(rng.integers(2, 5))):
        p = rng.dirichlet(np.ones(len(leaves)) * gen.pick(rng, [0.3, 0.8, 2.0]))
        v = np.array([leaves[k] for k in rng.choice(len(leaves), n, p=p)], dtype=object)
        if rng.random() < 0.3:
            v[rng.random(n) < 0.1] = np.nan
        cols[f"c{j}"] = v
    c.X = pd.DataFrame(cols)
    c.y = pd.Series((rng.random(n) < 0.5).astype(int))
    c.y.iloc[0], c.y.iloc[1] = 0, 1
    c.qual = list(cols)
    c.kind = "binary"
    c.config = {"min_freq": gen.pick(rng, [0.05, 0.1, 0.2]), "max_n_mod": 3, "dropna": True, "output_dtype": "str", "copy": True, "min_freq_mod": None, "sort_by": "tschuprowt"}
    c.meta = {"chained_levels": levels, "leaves": leaves}
    return c


def make_case(rng):
    if rng.random() < 0.15:
        return chained_case(rng), "chained"
    case = gen.multi_feature_case(rng, kind=gen.pick(rng, ["binary", "binary", "continuous"]), n=int(gen.pick(rng, [120, 250, 500])),
                                  n_feat=int(rng.integers(2, 7)), with_dev=rng.random() < 0.2, degenerate=rng.random() < 0.5)
    which = gen.pick(rng, ["carver", "carver", "Discretizer"])
    if case.quant and rng.random() < 0.6:
        # a min_freq whose 1/min_freq is rounded down, and a column with values sitting exactly on the frequency bounds
        from . import c09
        mf = gen.pick(rng, [0.07, 0.08, 0.12, 0.3])
        case.config["min_freq"] = mf
        gen.tame(case.config, limit=max(40, int(1500 / max(1, len(case.features)))))
        f = gen.pick(rng, case.quant)
        x = c09.exact_freq_column(rng, len(case.X), mf)
        # a value strictly inside [min_freq, 1/round(1/min_freq))
        q = round(1 / mf)
        cnt = int(np.ceil(mf * len(x))) + (1 if (np.ceil(mf * len(x)) + 1) / len(x) < 1 / q else 0)
        pos = rng.permutation(len(x))[:cnt]
        x[pos] = 77.0
        case.X[f] = x
        if case.X_dev is not None:
            case.X_dev[f] = x[rng.choice(len(x), len(case.X_dev), replace=True)]
        case.meta["exact_freq_column"] = f
    return case, which


def dump_of(case, which, n_jobs=1, features=None, column_order=None, list_order=None):
    """Fits a fresh estimator and returns ({feature: canonical dump}, internal iteration order) or raises."""
    c = case
    if features is not None or column_order is not None or list_order is not None:
        c = gen.Case()
        c.kind, c.config, c.meta = case.kind, dict(case.config), case.meta
        keep = list(features) if features is not None else list(case.features)
        if list_order is not None:
            keep = [f for f in list_order if f in keep]
        c.quant = [f for f in keep if f in case.quant]
        c.qual = [f for f in keep if f in case.qual]
        c.ordinal = [f for f in keep if f in case.ordinal]
        if list_order is not None:
            c.quant = [f for f in list_order if f in c.quant]
            c.qual = [f for f in list_order if f in c.qual]
            c.ordinal = [f for f in list_order if f in c.ordinal]
        c.values_orders = {f: list(v) for f, v in case.values_orders.items() if f in keep}
        cols = list(case.X.columns) if column_order is None else list(column_order)
        c.X, c.y = case.X[cols].copy(), case.y.copy()
        c.X_dev = None if case.X_dev is None else case.X_dev[cols].copy()
        c.y_dev = None if case.y_dev is None else case.y_dev.copy()
    if which == "chained":
        from AutoCarver.discretizers.utils.qualitative_discretizers import ChainedDiscretizer
        obj = ChainedDiscretizer(qualitative_features=list(c.qual), min_freq=c.config["min_freq"],
                                 chained_orders=[{k: list(v) for k, v in g.items()} for g in case.meta["chained_levels"]], copy=True, n_jobs=n_jobs)
        iteration_order = list(obj.features)
        obj.fit(c.X, c.y)
    else:
        obj = common.make_estimator(c, which, n_jobs=n_jobs)
        iteration_order = list(obj.features)
        common.fit_any(c, obj)
    out = obj.transform(c.X)
    dump = {}
    for f in obj.features:
        dump[f] = {"vo": common.vo_snapshot({f: obj.values_orders[f]})[f], "labels": [common._tag(v) for v in out[f].tolist()]}
    return dump, iteration_order


def diff_dumps(ref, other, what):
    probs = []
    for f in other:
        if f not in ref:
            probs.append(f"[{what}] feature {f} kept here but not in the reference fit")
            continue
        if ref[f]["vo"] != other[f]["vo"]:
            probs.append(f"[{what}] values_orders of {f} differs: {str(other[f]['vo'])[:150]} vs reference {str(ref[f]['vo'])[:150]}")
        elif ref[f]["labels"] != other[f]["labels"]:
            k = next(i for i, (a, b) in enumerate(zip(ref[f]["labels"], other[f]["labels"])) if a != b)
            probs.append(f"[{what}] transform output of {f} differs at row {k}: {other[f]['labels'][k]} vs {ref[f]['labels'][k]}")
    return probs


def install_delays(seed):
    """Seed-chosen 0-30 ms delay per feature in the per-feature worker functions (inherited by forked Pool workers)."""
    global COMPLETION_LOG
    import functools
    import zlib
    from AutoCarver.discretizers.utils import base_discretizers as bd
    from AutoCarver.discretizers.utils import quantitative_discretizers as qd
    from AutoCarver.discretizers.utils import type_discretizers as td
    if getattr(install_delays, "done", False):
        install_delays.seed[0] = seed
        return
    install_delays.done = True
    install_delays.seed = [seed]
    fd, COMPLETION_LOG = tempfile.mkstemp(prefix="verif_c10_", suffix=".log")
    os.close(fd)

    def wrap(mod, name, tag):
        orig = getattr(mod, name)

        @functools.wraps(orig)
        def delayed(feature, *a, **k):
            if os.environ.get("VERIF_C10_DELAY") == "1":
                ms = zlib.crc32(f"{install_delays.seed[0]}:{feature}:{tag}".encode()) % 31
                time.sleep(ms / 1000.0)
            r = orig(feature, *a, **k)
            if os.environ.get("VERIF_C10_DELAY") == "1":
                with open(COMPLETION_LOG, "a") as f:
                    f.write(f"{tag}\t{feature}\t{os.getpid()}\n")
            return r
        setattr(mod, name, delayed)
    wrap(qd, "fit_feature", "quant_fit")
    wrap(td, "fit_feature", "string_fit")
    wrap(bd, "transform_quantitative_feature", "quant_transform")


def read_completion_orders():
    if not COMPLETION_LOG or not os.path.exists(COMPLETION_LOG):
        return []
    lines = [ln.strip().split("\t") for ln in open(COMPLETION_LOG) if ln.strip()]
    open(COMPLETION_LOG, "w").close()
    return lines


def run_case(tier, seed, i):
    rng = gen.rng_for(ID, tier, seed, i)
    case, which = make_case(rng)
    counters = {"hash_seed_runs": 0, "n_jobs_fits": 0, "subset_fits": 0, "permuted_fits": 0, "features_compared": 0,
                "cases_with_2plus_iteration_orders": 0, "cases_with_2plus_completion_orders": 0, "parallel_worker_calls": 0}
    tags = [which, case.kind]
    sample = case.describe()
    sample["estimator"] = which
    install_delays(seed * 1000 + i)
    os.environ["VERIF_C10_DELAY"] = "0"
    r, e = common.guarded(dump_of, case, which)
    if e is not None:
        return {"status": "skip", "nontrivial": False, "tags": tags + ["fit_" + ("assertion" if common.is_assertion(e) else "internal_error:" + common.exc_name(e))], "counters": counters, "sample": sample}
    ref, order0 = r
    viols = []
    feats = list(case.features)
    iteration_orders = {tuple(order0)}

    def compare(what, **kw):
        rr, ee = common.guarded(dump_of, case, which, **kw)
        if ee is not None:
            viols.append({"kind": "paired_fit_raised", "variant": what, "msg": f"[{what}] raised {common.exc_name(ee)}: {str(ee)[:160]} while the reference fit completed"})
            return
        d, order = rr
        counters["features_compared"] += len(d)
        sub = kw.get("features")
        expected = set(ref) if sub is None else set(ref) & set(sub)
        if set(d) != expected:
            viols.append({"kind": "kept_features_differ", "variant": what, "msg": f"[{what}] kept features {sorted(d)} != {sorted(expected)} expected from the reference fit"})
        for p in diff_dumps(ref, d, what)[:2]:
            viols.append({"kind": "feature_depends_on_context", "variant": what, "msg": p})
        return order

    # (i) subsets: each feature alone (up to 3), a random half
    for f in [feats[k] for k in rng.permutation(len(feats))[:3]]:
        compare(f"alone:{f}", features=[f])
        counters["subset_fits"] += 1
    if len(feats) >= 3:
        half = [feats[k] for k in rng.permutation(len(feats))[: len(feats) // 2 + 1]]
        compare("subset:" + ",".join(half), features=half)
        counters["subset_fits"] += 1
    # (ii) permuted feature lists / columns
    lo = [feats[k] for k in rng.permutation(len(feats))]
    co = [list(case.X.columns)[k] for k in rng.permutation(len(case.X.columns))]
    o = compare("permuted_lists", list_order=lo)
    if o:
        iteration_orders.add(tuple(o))
    compare("permuted_columns", column_order=co)
    compare("permuted_both", list_order=list(reversed(lo)), column_order=list(reversed(co)))
    counters["permuted_fits"] += 3
    # (iv) n_jobs with injected delays
    os.environ["VERIF_C10_DELAY"] = "1"
    read_completion_orders()
    completion = set()
    for nj in (2, 4):
        compare(f"n_jobs={nj}", n_jobs=nj)
        counters["n_jobs_fits"] += 1
        lines = read_completion_orders()
        counters["parallel_worker_calls"] += len(lines)
        for tag in ("quant_fit", "string_fit", "quant_transform"):
            seq = tuple(f for t, f, _ in lines if t == tag)
            if len(seq) >= 2:
                # several pools are created per fit: record the order of first completions per tag
                completion.add((tag, seq[:len(set(seq))]))
    os.environ["VERIF_C10_DELAY"] = "0"
    n_orders_by_tag = {}
    for tag, seq in completion:
        n_orders_by_tag.setdefault(tag, set()).add(seq)
    counters["cases_with_2plus_completion_orders"] = int(max([len(v) for v in n_orders_by_tag.values()] + [0]) >= 2)
    # (iii) other hash seeds: one fresh interpreter per seed
    fd, path = tempfile.mkstemp(prefix="verif_c10_case_", suffix=".pkl")
    os.close(fd)
    try:
        with open(path, "wb") as fh:
            pickle.dump({"case": case, "which": which}, fh)
        for hs in HASH_SEEDS[tier]:
            envv = dict(os.environ, PYTHONHASHSEED=str(hs), PYTHONPATH=env.VERIF, VERIF_C10_DELAY="0")
            try:
                p = subprocess.run([env.PY, "-m", "vlib.c10_child", path], env=envv, cwd=env.VERIF, timeout=300, stdout=subprocess.PIPE, stderr=subprocess.PIPE)
            except subprocess.TimeoutExpired:
                counters["hash_seed_timeouts"] = counters.get("hash_seed_timeouts", 0) + 1
                continue
            counters["hash_seed_runs"] += 1
            try:
                res = json.loads(p.stdout.decode().strip().splitlines()[-1])
            except Exception:  # noqa
                viols.append({"kind": "hash_seed_run_failed", "variant": f"PYTHONHASHSEED={hs}", "msg": f"[PYTHONHASHSEED={hs}] child failed: {p.stderr.decode(errors='replace')[-300:]}"})
                continue
            if res.get("error"):
                viols.append({"kind": "paired_fit_raised", "variant": f"PYTHONHASHSEED={hs}", "msg": f"[PYTHONHASHSEED={hs}] raised {res['error'][:200]} while the reference fit completed"})
                continue
            iteration_orders.add(tuple(res["iteration_order"]))
            d = {f: {"vo": json.loads(json.dumps(common.vo_snapshot_jsonable(v["vo"]))), "labels": v["labels"]} for f, v in res["dump"].items()}
            refj = {f: {"vo": common.vo_snapshot_jsonable(v["vo"]), "labels": v["labels"]} for f, v in ref.items()}
            if set(d) != set(refj):
                viols.append({"kind": "kept_features_differ", "variant": f"PYTHONHASHSEED={hs}", "msg": f"[PYTHONHASHSEED={hs}] kept features {sorted(d)} != {sorted(refj)}"})
            for pmsg in diff_dumps(refj, d, f"PYTHONHASHSEED={hs}")[:2]:
                viols.append({"kind": "feature_depends_on_hash_seed", "variant": f"PYTHONHASHSEED={hs}", "msg": pmsg})
    finally:
        os.unlink(path)
    counters["cases_with_2plus_iteration_orders"] = int(len(iteration_orders) >= 2)
    for v in viols:
        v["mechanism"] = None
    sample["iteration_orders_seen"] = [list(o) for o in sorted(iteration_orders)][:6]
    sample["completion_orders_seen"] = [[t, list(s)] for t, s in sorted(completion)][:6]
    if viols:
        sample["frame"] = gen.frame_to_json(case.X, case.y)
    return {"status": "violation" if viols else "ok", "nontrivial": len(ref) >= 2, "key": common.case_hash(case, which), "tags": tags, "counters": counters,
            "violations": viols[:6], "sample": sample}
