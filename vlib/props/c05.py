"""C05 -- unseen data is given fitted labels or rejected (AssertionError naming the feature), never passed through."""
import numpy as np

from .. import common, fitted, gen, interp

ID = "C05"
RULE = ("every fitted object (all classes, some rebuilt from JSON) receives a battery of new frames: training subsets with "
        "shuffled/extra columns, single-row and empty frames, a missing fitted column, per-feature probes (values below/above/at "
        "the training range, nextafter of every boundary, +-1.7e308, denormals, ints for a float feature), unseen categories "
        "(strings and numbers), injected missing values. The expected outcome (accept with labels of the fitted label set / "
        "AssertionError naming the feature) is computed from values_orders alone and compared with what transform does. "
        "Non-trivial: a frame that perturbs a fitted feature with >= 2 groups; distinct by object hash + frame description.")
ASSUMPTIONS = [
    "a frame is expected to be rejected iff some fitted feature sees a missing value although no missing-value modality was "
    "learnt, or an unseen category although the feature has no default group, or a fitted column is absent",
    "the AssertionError must mention at least one of the offending features (the first one found is implementation-defined)",
    "label set of a feature = values of labels_per_values (+ missing when dropna=False)",
]
_BD = "AutoCarver/discretizers/utils/base_discretizers.py"
ANCHORS = [(_BD, "BaseDiscretizer._check_new_values"), (_BD, "transform_quantitative_feature"), (_BD, "BaseDiscretizer._transform_qualitative"),
           (_BD, "BaseDiscretizer._prepare_data")]
DECIDING_ANCHORS = [(_BD, "BaseDiscretizer._check_new_values"), (_BD, "transform_quantitative_feature")]
N = {"quick": 400, "thorough": 8000}
REQUIRED_COUNTERS = {"quick": {"frames": 2500, "expected_reject": 300, "expected_accept": 1500, "default_group_hits": 20},
                     "thorough": {"frames": 50000, "expected_reject": 6000, "expected_accept": 30000, "default_group_hits": 400}}


def n_cases(tier):
    return N[tier]


def budget_s(tier):
    return 900 if tier == "quick" else 7200


def min_nontrivial(tier):
    return 100 if tier == "quick" else 2000


def run_case(tier, seed, i):
    rng = gen.rng_for(ID, tier, seed, i)
    case, which = fitted.object_case(rng, hostile=rng.random() < 0.3)
    counters = {"frames": 0, "expected_reject": 0, "expected_accept": 0, "observed_reject": 0, "default_group_hits": 0, "cells_checked": 0}
    tags = [which, case.kind]
    sample = case.describe()
    sample["estimator"] = which
    obj, e = fitted.fit_object(case, which)
    if e is not None:
        return {"status": "skip", "nontrivial": False, "tags": tags + ["fit_" + ("assertion" if common.is_assertion(e) else "internal_error:" + common.exc_name(e))], "counters": counters, "sample": sample}
    if not obj.features:
        return {"status": "skip", "nontrivial": False, "tags": tags + ["no_feature_kept"], "counters": counters, "sample": sample}
    if rng.random() < 0.3:
        rel, e = common.guarded(fitted.json_reload, obj)
        if e is None:
            obj = rel[0]
            tags.append("json_rebuilt")
    viols = []
    nontrivial = False
    frames_desc = []
    label_sets = {f: fitted.label_set(obj, f) for f in obj.features}
    for desc, frame, exp in fitted.new_frames(rng, case, obj):
        counters["frames"] += 1
        frames_desc.append(desc)
        rejecting, groups = fitted.expected_outcome(obj, frame)
        snapshot_in = frame.copy()
        out, e = common.guarded(obj.transform, frame.copy())
        if any(len(obj.values_orders[f]) >= 2 for f in obj.features) and (":" in desc):
            nontrivial = True
        if rejecting:
            counters["expected_reject"] += 1
            if e is None:
                f0 = next(iter(rejecting))
                viols.append({"kind": "accepted_but_should_reject", "frame": desc, "msg": f"[{desc}] accepted although {f0}: {rejecting[f0]}"})
            elif not common.is_assertion(e):
                viols.append({"kind": "wrong_exception_type", "frame": desc, "msg": f"[{desc}] raised {common.exc_name(e)} instead of AssertionError: {str(e)[:150]}"})
            else:
                counters["observed_reject"] += 1
                msg = str(e)
                names = set(rejecting) | {fitted.raw_column_of(obj, f) for f in rejecting}
                if not any(nm in msg for nm in names):
                    viols.append({"kind": "assertion_does_not_name_feature", "frame": desc, "msg": f"[{desc}] AssertionError does not name any of {sorted(names)}: {msg[:150]}"})
            continue
        counters["expected_accept"] += 1
        if e is not None:
            kind = "rejected_but_should_accept" if common.is_assertion(e) else "wrong_exception_type"
            viols.append({"kind": kind, "frame": desc, "msg": f"[{desc}] raised {common.exc_name(e)} although every value is acceptable: {str(e)[:200]}"})
            continue
        # accepted: only labels of the fitted label set, and the label of the expected group
        if len(out) != len(frame):
            viols.append({"kind": "row_count_changed", "frame": desc, "msg": f"[{desc}] output has {len(out)} rows for {len(frame)} input rows"})
            continue
        for f in obj.features:
            if f not in out.columns:
                viols.append({"kind": "feature_missing_from_output", "frame": desc, "msg": f"[{desc}] column {f} missing from output"})
                continue
            raw = fitted.raw_column_of(obj, f)
            dropna = obj.features_dropna.get(f, obj.dropna)
            snap = interp.snapshot(obj.values_orders[f])
            lpv = obj.labels_per_values[f]
            for pos, (v_in, v_out, g) in enumerate(zip(frame[raw].tolist(), out[f].tolist(), groups[f])):
                counters["cells_checked"] += 1
                if interp.is_nan(v_out):
                    if not (interp.is_nan(v_in) and not dropna):
                        viols.append({"kind": "missing_output", "frame": desc, "msg": f"[{desc}] {f}: {v_in!r} became a missing value"})
                        break
                    continue
                if common.label_key(v_out) not in label_sets[f]:
                    viols.append({"kind": "raw_value_leaked", "frame": desc, "msg": f"[{desc}] {f}: output {v_out!r} for input {v_in!r} is not a fitted label {sorted(label_sets[f])[:6]}"})
                    break
                if g is not None:
                    leader = snap[g][0]
                    if any(isinstance(m, str) and m == obj.str_default for m in snap[g][1]) and interp.qual_group(snap, v_in, obj.str_nan) is None:
                        counters["default_group_hits"] += 1
                    want = lpv.get(leader)
                    if want is not None and not (interp.is_nan(v_in) and not dropna) and not common.cell_equal(want, v_out):
                        viols.append({"kind": "wrong_group_label", "frame": desc, "msg": f"[{desc}] {f}: input {v_in!r} belongs to group {leader!r} (label {want!r}) but got {v_out!r}"})
                        break
        if common.frame_fingerprint(frame) != common.frame_fingerprint(snapshot_in):
            pass  # the harness hands transform a copy; side effects are C07's business
    for v in viols:
        v["mechanism"] = classify(v)
    sample["frames"] = frames_desc
    sample["fitted_features"] = list(obj.features)
    if viols:
        sample["frame"] = gen.frame_to_json(case.X, case.y)
    return {"status": "violation" if viols else "ok", "nontrivial": nontrivial, "key": common.case_hash(case, which + "|".join(frames_desc)),
            "tags": tags, "counters": counters, "violations": viols[:6], "sample": sample}


def classify(v):
    return None
