"""C02 -- carved features respect max_n_mod, min_freq_mod and dev robustness (pure output inspection)."""
from fractions import Fraction

import numpy as np
import pandas as pd

from .. import common, gen, interp

ID = "C02"
RULE = ("carver fits (Binary / Continuous / Multiclass) on single-feature frames biased to the bounds (round totals so that "
        "groups sit exactly on min_freq_mod, NaN shares that can only be merged, modalities absent from dev, max_n_mod 2 and "
        "> number of buckets) and on multi-feature frames; transform(X_train) and transform(X_dev) are inspected with "
        "value_counts / group means only. Non-trivial: at least one kept feature with >= 2 output labels; distinct by hash of "
        "data+configuration.")
ASSUMPTIONS = [
    "frequency bound evaluated in floats and exactly (fractions); a group sitting exactly on the bound where the two disagree is ambiguous, not a violation",
    "rank agreement means no strict inversion of mean(y) between two labels across train and dev (ties raise no alarm)",
    "with dropna=False frequencies are relative to the non-missing rows; with dropna=True to all rows",
    "MulticlassCarver: the bounds are checked per class column f_c against the indicator 1[y==c]",
]
_BC = "AutoCarver/carvers/base_carver.py"
ANCHORS = [(_BC, "BaseCarver._test_viability"), (_BC, "nan_combinations"), ("AutoCarver/carvers/multiclass_carver.py", "MulticlassCarver.fit"),
           ("AutoCarver/discretizers/utils/base_discretizers.py", "BaseDiscretizer.transform")]
DECIDING_ANCHORS = [(_BC, "BaseCarver._test_viability")]
N = {"quick": 600, "thorough": 15000}
REQUIRED_COUNTERS = {"quick": {"tag:with_dev": 60, "tag:multiclass": 30, "features_checked": 300, "dev_features_checked": 40},
                     "thorough": {"tag:with_dev": 600, "tag:multiclass": 300, "features_checked": 3000, "dev_features_checked": 400}}


def n_cases(tier):
    return N[tier]


def budget_s(tier):
    return 900 if tier == "quick" else 7200


def min_nontrivial(tier):
    return 150 if tier == "quick" else 3000


def make_case(rng):
    r = rng.random()
    if r < 0.55:
        c = gen.single_feature_case(rng, round_total=rng.random() < 0.7, with_dev=rng.random() < 0.5, max_n_mod_hi=7,
                                    nan_share=gen.pick(rng, [0, 0.02, 0.03, 0.05, 0.1, 0.3]))
        if rng.random() < 0.3:
            c.config["max_n_mod"] = 2
        if rng.random() < 0.5:
            c.config["min_freq_mod"] = gen.pick(rng, [0.05, 0.1, 0.2, 0.25])
    elif r < 0.8:
        c = gen.multi_feature_case(rng, kind=gen.pick(rng, ["binary", "continuous"]), n=int(gen.pick(rng, [150, 300, 600])), with_dev=rng.random() < 0.4)
    else:
        c = gen.multi_feature_case(rng, kind="multiclass", n=int(gen.pick(rng, [200, 400])), n_feat=int(rng.integers(1, 4)), with_dev=rng.random() < 0.3)
        if rng.random() < 0.6:
            c.config["min_freq_mod"] = gen.pick(rng, [0.1, 0.2, 0.25])
    return c


def freq3(count, n, mfm):
    if n == 0:
        return False
    fl = count / n >= mfm
    ex = Fraction(int(count), int(n)) >= Fraction(repr(float(mfm)))  # the decimal value the user wrote
    if fl != ex:
        return None
    return fl


def check_column(out_col, raw_col, y, cfg, mfm, dropna, where):
    """Inspects one transformed column. Returns (violations, label->mean(y), labels)"""
    viols = []
    raw_nan = np.array([interp.is_nan(v) for v in raw_col])
    out_nan = np.array([interp.is_nan(v) for v in out_col])
    if dropna:
        if out_nan.any():
            viols.append({"kind": "missing_output_with_dropna", "msg": f"{where}: {int(out_nan.sum())} missing outputs although dropna=True"})
    else:
        if (raw_nan != out_nan).any():
            viols.append({"kind": "missing_not_preserved", "msg": f"{where}: missing values not preserved in place with dropna=False ({int((raw_nan & ~out_nan).sum())} filled, {int((~raw_nan & out_nan).sum())} created)"})
    labels = {}
    for v, isn in zip(out_col, out_nan):
        if not isn:
            labels[common.label_key(v)] = labels.get(common.label_key(v), 0) + 1
    if len(labels) > cfg["max_n_mod"]:
        viols.append({"kind": "too_many_labels", "msg": f"{where}: {len(labels)} distinct non-missing labels > max_n_mod={cfg['max_n_mod']}"})
    n = len(out_col) if dropna else int((~out_nan).sum())
    amb = 0
    for lab, cnt in labels.items():
        r = freq3(cnt, n, mfm)
        if r is None:
            amb += 1
        elif r is False:
            viols.append({"kind": "label_below_min_freq_mod", "msg": f"{where}: label {lab} carried by {cnt}/{n} rows = {cnt / n:.4f} < min_freq_mod={mfm}"})
    means = {}
    yy = np.asarray(y, float)
    keys = [None if isn else common.label_key(v) for v, isn in zip(out_col, out_nan)]
    for lab in labels:
        idx = [i for i, k in enumerate(keys) if k == lab]
        means[lab] = float(yy[idx].mean())
    return viols, means, set(labels), amb


def run_case(tier, seed, i):
    rng = gen.rng_for(ID, tier, seed, i)
    case = make_case(rng)
    cfg = case.config
    tags = [case.kind]
    counters = {"features_checked": 0, "dev_features_checked": 0, "ambiguous_bounds": 0, "labels_seen": 0}
    sample = case.describe()
    carver = gen.make_carver(case)
    _, e = common.guarded(carver.fit, case.X, case.y, **gen.fit_kwargs(case))
    if e is not None:
        return {"status": "skip", "nontrivial": False, "tags": tags + ["fit_" + ("assertion" if common.is_assertion(e) else "internal_error:" + common.exc_name(e))], "counters": counters, "sample": sample}
    out, e = common.guarded(carver.transform, case.X)
    if e is not None:
        return {"status": "violation", "nontrivial": True, "key": common.case_hash(case), "tags": tags, "counters": counters, "sample": sample,
                "violations": [{"kind": "transform_train_raised", "msg": f"transform(X_train) raised {common.exc_name(e)}: {e}"[:300], "mechanism": None}]}
    out_dev = None
    if case.X_dev is not None:
        tags.append("with_dev")
        out_dev, e = common.guarded(carver.transform, case.X_dev)
        if e is not None:
            return {"status": "violation", "nontrivial": True, "key": common.case_hash(case), "tags": tags, "counters": counters, "sample": sample,
                    "violations": [{"kind": "transform_dev_raised", "msg": f"transform(X_dev) raised {common.exc_name(e)}: {e}"[:300], "mechanism": None}]}
    mfm = cfg["min_freq_mod"] if cfg.get("min_freq_mod") is not None else cfg["min_freq"] / 2
    viols = []
    nontrivial = False
    kept_desc = {}
    # (output column, raw column, target) triples
    triples = []
    if case.kind == "multiclass":
        classes = sorted(set(str(v) for v in case.y.tolist()))
        ystr = case.y.astype(str)
        ydev_str = None if case.y_dev is None else case.y_dev.astype(str)
        for raw, casted in carver.features_casting.items():
            for col in casted:
                cl = col[len(raw) + 1:]
                triples.append((col, raw, (ystr == cl).astype(int), None if ydev_str is None else (ydev_str == cl).astype(int)))
    else:
        for f in carver.features:
            triples.append((f, f, case.y, case.y_dev))
    for col, raw, y, ydev in triples:
        if col not in out.columns:
            viols.append({"kind": "kept_feature_missing_from_output", "msg": f"column {col} missing from transform output"})
            continue
        dropna = bool(carver.features_dropna.get(col, cfg["dropna"])) if isinstance(carver.features_dropna, dict) else cfg["dropna"]
        dropna = cfg["dropna"]
        v, means, labels, amb = check_column(out[col].tolist(), case.X[raw].tolist(), y.tolist(), cfg, mfm, dropna, f"train/{col}")
        counters["features_checked"] += 1
        counters["ambiguous_bounds"] += amb
        counters["labels_seen"] += len(labels)
        kept_desc[col] = len(labels)
        if len(labels) >= 2:
            nontrivial = True
        for x in v:
            x["feature"] = col
        viols += v
        if out_dev is not None and col in out_dev.columns:
            vd, means_d, labels_d, ambd = check_column(out_dev[col].tolist(), case.X_dev[raw].tolist(), ydev.tolist(), cfg, mfm, dropna, f"dev/{col}")
            counters["dev_features_checked"] += 1
            counters["ambiguous_bounds"] += ambd
            for x in vd:
                x["feature"] = col
            viols += vd
            if labels_d != labels:
                viols.append({"kind": "dev_label_set_differs", "feature": col, "msg": f"{col}: label set on dev {sorted(labels_d)} != on train {sorted(labels)}"})
            common_l = sorted(labels & labels_d)
            for a in range(len(common_l)):
                for b in range(a + 1, len(common_l)):
                    la, lb = common_l[a], common_l[b]
                    dt, dd = means[la] - means[lb], means_d[la] - means_d[lb]
                    if (dt < 0 < dd) or (dd < 0 < dt):
                        viols.append({"kind": "rank_inversion_train_dev", "feature": col,
                                      "msg": f"{col}: labels {la},{lb} ranked {means[la]:.4f} vs {means[lb]:.4f} on train but {means_d[la]:.4f} vs {means_d[lb]:.4f} on dev"})
    for x in viols:
        x["mechanism"] = classify(x, case)
    sample["kept_features_labels"] = kept_desc
    if viols:
        sample["frame"] = gen.frame_to_json(case.X, case.y)
        sample["dev"] = gen.frame_to_json(case.X_dev, case.y_dev) if case.X_dev is not None else None
    return {"status": "violation" if viols else "ok", "nontrivial": nontrivial, "key": common.case_hash(case), "tags": tags, "counters": counters,
            "violations": viols, "sample": sample}


def classify(v, case):
    return None
