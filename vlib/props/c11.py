"""C11 -- carving is invariant under information-preserving re-encodings (metamorphic pairs of real fits)."""
import numpy as np
import pandas as pd

from .. import common, gen, interp

ID = "C11"
RULE = ("base cases: single- and multi-feature frames for Binary/Continuous carvers; for each, up to 5 re-encodings are fitted "
        "with a fresh carver: row permutation (with index), index relabelling (offset ints / shuffled ints / strings), exact "
        "affine map a*x+b of every quantitative column (a in {2,4,0.5,1024}, b in {0,8,-64}; only if exactly invertible in "
        "floating point on that column, otherwise skipped and counted), renaming of categories by a common prefix, consistent "
        "renaming of an ordinal ranking. Kept-feature sets and the partitions of row positions induced by transform are "
        "compared after undoing the permutation. Non-trivial: base fit keeps a feature with >= 2 groups; distinct by "
        "data+config+transformation.")
ASSUMPTIONS = [
    "category renaming is only compared when the training rates of the (pooled) modalities are pairwise distinct: with exact "
    "ties the order of tied modalities is an arbitrary tie-break the statement does not fix",
    "affine maps must be exactly invertible and strictly monotone in floating point on the column (checked per column)",
    "partitions are compared on row positions; label texts are free to change",
]
ANCHORS = [("AutoCarver/discretizers/utils/quantitative_discretizers.py", "np_find_quantiles"),
           ("AutoCarver/discretizers/utils/qualitative_discretizers.py", "CategoricalDiscretizer.fit"),
           ("AutoCarver/discretizers/utils/qualitative_discretizers.py", "find_common_modalities"),
           ("AutoCarver/discretizers/utils/base_discretizers.py", "format_quantiles"),
           ("AutoCarver/carvers/binary_carver.py", "BinaryCarver._aggregator"), ("AutoCarver/carvers/continuous_carver.py", "ContinuousCarver._aggregator")]
DECIDING_ANCHORS = [("AutoCarver/carvers/binary_carver.py", "BinaryCarver._aggregator")]
N = {"quick": 240, "thorough": 4000}
REQUIRED_COUNTERS = {"quick": {"pairs_compared": 450, "tag:affine": 60, "tag:rename_categories": 40, "tag:permute_rows": 100, "tag:relabel_index": 100},
                     "thorough": {"pairs_compared": 9000, "tag:affine": 1200, "tag:rename_categories": 800, "tag:permute_rows": 2000, "tag:relabel_index": 2000}}


def n_cases(tier):
    return N[tier]


def budget_s(tier):
    return 900 if tier == "quick" else 7200


def min_nontrivial(tier):
    return 80 if tier == "quick" else 1600


def clone_case(case):
    c = gen.Case()
    c.X, c.y = case.X.copy(), case.y.copy()
    c.X_dev = None if case.X_dev is None else case.X_dev.copy()
    c.y_dev = None if case.y_dev is None else case.y_dev.copy()
    c.kind, c.quant, c.qual, c.ordinal = case.kind, list(case.quant), list(case.qual), list(case.ordinal)
    c.values_orders = case.orders_copy()
    c.config = dict(case.config)
    c.meta = dict(case.meta)
    return c


def fit_and_partition(case):
    carver = gen.make_carver(case)
    _, e = common.guarded(carver.fit, case.X, case.y, **gen.fit_kwargs(case))
    if e is not None:
        return None, None, e
    out, e = common.guarded(carver.transform, case.X)
    if e is not None:
        return None, None, e
    kept = sorted(carver.features)
    parts = {f: common.partition_of(out[f].tolist()) for f in kept}
    return kept, parts, None


def rates_have_ties(case, f, min_freq):
    vals = case.X[f].tolist()
    y = np.asarray(case.y.tolist(), float)
    n = len(vals)
    rows = {}
    for i, v in enumerate(vals):
        if not interp.is_nan(v):
            rows.setdefault(interp.str_form(v), []).append(i)
    pooled = {}
    for k, r in rows.items():
        pooled.setdefault(k if len(r) / n >= min_freq else "__OTHER__", []).extend(r)
    rates = sorted(float(y[r].mean()) for r in pooled.values())
    return any(abs(a - b) <= 1e-9 * max(1.0, abs(a)) for a, b in zip(rates[:-1], rates[1:]))


def transformations(rng, case):
    n = len(case.X)
    out = []
    # 1. row permutation (with index)
    perm = rng.permutation(n)
    c = clone_case(case)
    c.X, c.y = case.X.iloc[perm].copy(), case.y.iloc[perm].copy()
    inv = np.empty(n, int)
    inv[perm] = np.arange(n)
    out.append(("permute_rows", c, perm))
    # 2. index relabelling
    c = clone_case(case)
    style = gen.pick(rng, ["offset", "shuffled", "str"])
    idx = gen.index_for(rng, n, style)
    c.X.index = idx
    c.y.index = idx
    out.append(("relabel_index", c, None))
    # 3. exact affine maps of the quantitative columns
    if case.quant:
        c = clone_case(case)
        ok_all = True
        desc = {}
        for f in case.quant:
            cands = [(a, b) for a in (2.0, 4.0, 0.5, 1024.0) for b in (0.0, 8.0, -64.0)]
            cands = [cands[k] for k in rng.permutation(len(cands))]
            if rng.random() < 0.7:
                # large offsets: the spread becomes tiny relative to the magnitude (only exact on columns living on a coarse grid)
                big = [(1.0, 2.0 ** 20), (8.0, 2.0 ** 24), (0.5, -2.0 ** 22), (1.0, 2.0 ** 30), (1.0, 2.0 ** 27), (2.0, -2.0 ** 33)]
                cands = [big[k] for k in rng.permutation(len(big))] + cands
            # maps sending an observed value (a future boundary) exactly onto 0.0 -- zero is falsy, a classic special case
            obs = c.X[f].astype(float).dropna().unique()
            if len(obs) and rng.random() < 0.5:
                x0 = float(obs[int(rng.integers(len(obs)))])
                a0 = gen.pick(rng, [1.0, 2.0, 0.5])
                cands = [(a0, -a0 * x0)] + cands
            chosen = None
            for a, b in cands:  # first map that is exactly invertible and strictly monotone on this column
                good = True
                for fr in (c.X, c.X_dev):
                    if fr is None:
                        continue
                    x = fr[f].astype(float).values
                    fin = ~np.isnan(x)
                    z = a * x + b
                    u = np.unique(x[fin])
                    if not (np.all(((z - b) / a)[fin] == x[fin]) and (len(u) < 2 or np.all(np.diff(a * u + b) > 0))):
                        good = False
                if good:
                    chosen = (a, b)
                    break
            if chosen is None:
                ok_all = False
                continue
            a, b = chosen
            for fr in (c.X, c.X_dev):
                if fr is not None:
                    fr[f] = a * fr[f].astype(float).values + b
            desc[f] = (a, b)
        out.append(("affine" if ok_all else "affine_not_exact_skipped", c if ok_all else None, desc))
    # 3b. shifts sending each observed value in turn exactly onto 0.0 (single quantitative feature with missing values)
    if len(case.quant) == 1 and len(case.features) == 1 and case.X[case.quant[0]].isna().any():
        f = case.quant[0]
        obs = np.sort(case.X[f].astype(float).dropna().unique())
        if len(obs) <= 12:
            for x0 in [obs[k] for k in rng.permutation(len(obs))[:4]]:
                c = clone_case(case)
                good = True
                for fr in (c.X, c.X_dev):
                    if fr is None:
                        continue
                    x = fr[f].astype(float).values
                    z = x - x0
                    fin = ~np.isnan(x)
                    if not np.all((z + x0)[fin] == x[fin]):
                        good = False
                    fr[f] = z
                if good:
                    out.append(("affine_zero", c, {f: (1.0, -float(x0))}))
    # 4. renaming of categories by a common prefix (order-preserving bijection)
    if case.qual:
        c = clone_case(case)
        ties = any(rates_have_ties(case, f, case.config["min_freq"]) for f in case.qual)
        numeric = any(any(not isinstance(v, str) and not interp.is_nan(v) for v in case.X[f].tolist()) for f in case.qual)
        if ties or numeric:
            out.append(("rename_categories_skipped_ties" if ties else "rename_categories_skipped_numeric", None, None))
        else:
            for f in case.qual:
                for fr in (c.X, c.X_dev):
                    if fr is not None:
                        fr[f] = [np.nan if interp.is_nan(v) else "zz_" + v for v in fr[f].tolist()]
            out.append(("rename_categories", c, None))
    # 5. consistent renaming of ordinal rankings
    if case.ordinal:
        c = clone_case(case)
        for f in case.ordinal:
            ranking = case.values_orders[f]
            mp = {v: f"lvl{k:02d}_{v[::-1]}" for k, v in enumerate(ranking)}
            c.values_orders[f] = [mp[v] for v in ranking]
            for fr in (c.X, c.X_dev):
                if fr is not None:
                    fr[f] = [np.nan if interp.is_nan(v) else mp[v] for v in fr[f].tolist()]
        out.append(("rename_ranking", c, None))
    return out


def tie_split_case(rng):
    """Categorical feature whose two middle modalities have exactly the same target rate while the only viable 2-group
    split separates them: the fitted partition then depends on how the tie is broken -- which must not depend on row
    order, index labels or (order-preserving) names."""
    c = gen.Case()
    c.kind = gen.pick(rng, ["binary", "continuous"])
    unit = int(gen.pick(rng, [20, 40]))
    # shares in twentieths: low, mid_a, mid_b, top ; low and top alone are below min_freq_mod, the middle split is viable either way
    shares = gen.pick(rng, [(4, 4, 7, 5), (4, 3, 8, 5), (5, 3, 7, 5), (3, 5, 7, 5), (4, 7, 4, 5)])
    names = ["c_low", "k_mid", "m_mid", "z_top"]
    if rng.random() < 0.5:
        names = ["c_low", "m_mid", "k_mid", "z_top"]
    rates = (0.2, 0.5, 0.5, 0.8)
    vals, ys = [], []
    for name, sh, r in zip(names, shares, rates):
        m = sh * unit
        vals += [name] * m
        if c.kind == "binary":
            yy = np.zeros(m)
            yy[: int(round(r * m))] = 1
        else:
            yy = np.tile(np.arange(4.0), m // 4 + 1)[:m] + 10 * r
        ys += list(yy)
    order = rng.permutation(len(vals))
    c.X = pd.DataFrame({"f": np.array(vals, dtype=object)[order]})
    c.y = pd.Series(np.array(ys)[order]) if c.kind == "continuous" else pd.Series(np.array(ys)[order].astype(int))
    idx = gen.index_for(rng, len(vals))
    c.X.index = idx
    c.y.index = idx
    c.qual = ["f"]
    c.config = {"min_freq": 0.05, "max_n_mod": 2, "min_freq_mod": 0.3, "dropna": True, "output_dtype": gen.pick(rng, ["float", "str"]), "copy": True,
                "sort_by": "kruskal" if c.kind == "continuous" else gen.pick(rng, ["tschuprowt", "cramerv"])}
    c.meta = {"ftype": "cat", "family": "tie_split", "shares": list(shares), "names": names}
    return c


def run_case(tier, seed, i):
    rng = gen.rng_for(ID, tier, seed, i)
    r0 = rng.random()
    if r0 < 0.1:
        case = tie_split_case(rng)
    elif r0 < 0.25:
        # exact ties of target rate between modalities: the tie-break must not depend on row order or index labels
        case = gen.single_feature_case(rng, exact=True, ftype=gen.pick(rng, ["cat", "cat", "ord", "quant"]), with_dev=False)
        case.config["min_freq"] = gen.pick(rng, [0.05, 0.1])
    elif r0 < 0.6:
        case = gen.single_feature_case(rng, exact=False, hostile_names=False, with_dev=rng.random() < 0.25,
                                       quant_flavour=gen.pick(rng, [None, "jitter"]))
    else:
        case = gen.multi_feature_case(rng, kind=gen.pick(rng, ["binary", "continuous"]), n=int(gen.pick(rng, [100, 200, 400])),
                                      n_feat=int(rng.integers(1, 5)), with_dev=rng.random() < 0.2, allow_numeric_cat=False)
    counters = {"pairs_compared": 0, "base_fits": 0, "features_compared": 0}
    tags = [case.kind]
    sample = case.describe()
    kept0, parts0, e = fit_and_partition(case)
    if e is not None:
        return {"status": "skip", "nontrivial": False, "tags": tags + ["fit_" + ("assertion" if common.is_assertion(e) else "internal_error:" + common.exc_name(e))], "counters": counters, "sample": sample}
    counters["base_fits"] += 1
    nontrivial = any(len(p) >= 2 for p in parts0.values())
    viols = []
    done = []
    for name, c2, aux in transformations(rng, case):
        tags.append(name)
        if c2 is None:
            continue
        kept1, parts1, e = fit_and_partition(c2)
        counters["pairs_compared"] += 1
        done.append(name)
        if e is not None:
            viols.append({"kind": "reencoded_fit_raised", "transformation": name, "msg": f"[{name}] re-encoded fit raised {common.exc_name(e)}: {str(e)[:160]} while the original fit completed"})
            continue
        if kept0 != kept1:
            viols.append({"kind": "kept_features_differ", "transformation": name, "msg": f"[{name}] kept features {kept1} != original {kept0}" + (f" (maps {aux})" if name.startswith("affine") else "")})
            continue
        for f in kept0:
            counters["features_compared"] += 1
            p1 = parts1[f]
            if name == "permute_rows":
                perm = aux
                p1 = sorted(tuple(sorted(int(perm[j]) for j in block)) for block in p1)
            if p1 != parts0[f]:
                viols.append({"kind": "partition_differs", "transformation": name, "feature": f,
                              "msg": f"[{name}] partition of rows for {f} differs: {len(parts0[f])} groups originally (sizes {sorted(len(b) for b in parts0[f])}) vs {len(p1)} (sizes {sorted(len(b) for b in p1)})" + (f" (maps {aux})" if name.startswith("affine") else "")})
    for v in viols:
        v["mechanism"] = None
    sample["transformations"] = done
    sample["kept"] = kept0
    if viols:
        sample["frame"] = gen.frame_to_json(case.X, case.y)
    return {"status": "violation" if viols else "ok", "nontrivial": nontrivial, "key": common.case_hash(case, "|".join(done)), "tags": tags, "counters": counters,
            "violations": viols[:6], "sample": sample}
