"""C13 -- GroupedList stays a consistent ordered partition under any history.

Monitor: lock-step reference model (ordered leader -> members) + icontract class invariant on the real class.
Workload: exhaustive DFS over all valid operation sequences on a 4-value universe (falsy values included),
plus random histories over larger universes.
"""
import copy
import itertools

import numpy as np

from .. import gen, monitors

ID = "C13"
NEEDS_GL = True
RULE = ("exhaustive part: every sequence of valid GroupedList operations up to the depth bound from every initial "
        "construction over the universe [0, '', 1.5, '__NAN__'] (one case = the subtree below one (construction, first "
        "operation) pair; the evidence counts nodes = operation applications); random part: histories of 5..40 valid "
        "operations over 8-value universes (str / int / float / mixed / sentinel). After every operation the real object "
        "is compared with the reference model (list order, content as sets, get, get_group for every member and a "
        "non-member, values, contains) and the class invariant is evaluated. Non-trivial: a history in which at least one "
        "group has 2+ members; distinct by the hash of the operation sequence.")
ASSUMPTIONS = [
    "validity of an operation is decided by the reference model before the call (append of an absent value, group of two "
    "present leaders, update that keeps the partition, sort of mutually comparable keys, sort_by with a permutation, "
    "replace_group_leader with a member); invalid calls are never made",
    "content is compared as sets per leader, leaders by ==, so 1 and 1.0 (numpy-sorted leaders) are the same value",
    "get_group of a value that is in no group returns the value itself (documented fallback)",
    "a raw float NaN is not a value of the universe: the library represents missing values by the string sentinel and GroupedList's "
    "dict-based design cannot hold a float-NaN leader (the constructor from a dict, sort and sort_by already lose it on the unchanged code)",
]
ANCHORS = [("AutoCarver/discretizers/utils/grouped_list.py", "GroupedList." + m) for m in
           ("__init__", "get", "group", "group_list", "append", "update", "sort", "sort_by", "remove", "pop", "get_group",
            "values", "contains", "replace_group_leader")]
DECIDING_ANCHORS = [("AutoCarver/discretizers/utils/grouped_list.py", "GroupedList.group"),
                    ("AutoCarver/discretizers/utils/grouped_list.py", "GroupedList.get_group")]
EXHAUSTIVE = {"quick": True, "thorough": True}
EXHAUSTIVE_NOTE = "exhaustive only for the DFS sub-space (universe of 4 values, depth bound quick=4 / thorough=5)"
U4 = [0, "", 1.5, "__NAN__"]
DEPTH = {"quick": 4, "thorough": 5}
N_RANDOM = {"quick": 160, "thorough": 6400}  # batches of 100 histories
REQUIRED_COUNTERS = {"quick": {"nodes": 20000, "falsy_leader_lookups": 100}, "thorough": {"nodes": 5000000, "falsy_leader_lookups": 100}}


def budget_s(tier):
    return 600 if tier == "quick" else 3600


def min_nontrivial(tier):
    return 50


class Model:
    """plain reference model: ordered list of [leader, members]"""

    def __init__(self, groups=None):
        self.g = [[l, list(m)] for l, m in (groups or [])]

    def clone(self):
        return Model(self.g)

    def leaders(self):
        return [l for l, _ in self.g]

    def all_values(self):
        return [v for _, m in self.g for v in m]

    def idx(self, leader):
        for i, (l, _) in enumerate(self.g):
            if same(l, leader):
                return i
        return None

    def has_leader(self, v):
        return self.idx(v) is not None

    def has_value(self, v):
        return any(same(v, x) for x in self.all_values())

    def group_of(self, v):
        for l, m in self.g:
            if any(same(v, x) for x in m):
                return l
        return None


def same(a, b):
    if isinstance(a, str) != isinstance(b, str):
        return False
    if isinstance(a, float) and isinstance(b, float) and a != a and b != b:
        return True  # NaN-insensitive equality, as the class documents (is_equal)
    return a == b


def initial_states():
    """(description, constructor thunk arg, model)"""
    out = []
    for r in (0, 1, 2, 3, 4):
        for combo in itertools.permutations(U4, r) if r <= 2 else [tuple(U4[:r]), tuple(reversed(U4[:r]))]:
            out.append((("list", list(combo)), Model([(v, [v]) for v in combo])))
    # dict constructions: leader missing from its own values is added; empty-valued key grouped elsewhere is dropped
    out.append((("dict", {0: ["", 0], 1.5: [1.5]}), Model([(0, ["", 0]), (1.5, [1.5])])))
    out.append((("dict", {"": [0], "__NAN__": []}), Model([("", [0, ""]), ("__NAN__", ["__NAN__"])])))
    out.append((("dict", {1.5: [0, 1.5, "__NAN__"], 0: []}), Model([(1.5, [0, 1.5, "__NAN__"])])))
    out.append((("dict", {"__NAN__": ["__NAN__", ""], 0: [0, 1.5]}), Model([("__NAN__", ["__NAN__", ""]), (0, [0, 1.5])])))
    out.append((("array", [1.5, 0]), Model([(1.5, [1.5]), (0, [0])])))  # numpy array input is converted to a list
    return out


def valid_ops(m, universe, rng=None, limit=None):
    """All valid operations from model state m (exhaustive enumeration for small universes)."""
    ops = []
    L = m.leaders()
    for d in L:
        for k in L:
            if not same(d, k):
                ops.append(("group", d, k))
    if len(L) >= 3:
        ops.append(("group_list", [L[0], L[1]], L[2]))
        ops.append(("group_list", [L[-1], L[0]], L[1]))
    if len(L) >= 1:
        ops.append(("group", L[0], L[0]))  # no-op by contract
        ops.append(("group_list", [], L[0]))
    absent = [v for v in universe if not m.has_value(v)]
    for v in absent:
        ops.append(("append", v))
    if absent and L:
        ops.append(("update_extend", L[0], absent[0]))  # existing leader gets one more member
    if len(absent) >= 2:
        ops.append(("update_new", absent[0], absent[1]))  # new leader with a companion
    for l in L:
        ops.append(("remove", l))
    for i in range(len(L)):
        ops.append(("pop", i))
    if L:
        ops.append(("pop", -1))
    ops.append(("sort",))
    if len(L) >= 2:
        ops.append(("sort_by", list(reversed(L))))
        ops.append(("sort_by", L[1:] + L[:1]))
    for l, mem in m.g:
        for x in mem:
            if not same(x, l):
                ops.append(("replace_group_leader", l, x))
    if L:
        ops.append(("replace_group_leader", L[-1], L[-1]))  # a leader is a member of its own group: valid, and a no-op
    ops.append(("copy",))
    ops.append(("rebuild_from_content",))
    return ops


def apply_model(m, op):
    """Returns the new model (operations returning a new object leave m untouched)."""
    kind = op[0]
    n = m.clone()
    if kind == "group":
        d, k = op[1], op[2]
        if same(d, k):
            return n
        i, j = n.idx(d), n.idx(k)
        n.g[j][1] = n.g[i][1] + n.g[j][1]
        del n.g[i]
    elif kind == "group_list":
        for d in op[1]:
            n = apply_model(n, ("group", d, op[2]))
    elif kind == "append":
        n.g.append([op[1], [op[1]]])
    elif kind == "update_extend":
        i = n.idx(op[1])
        n.g[i][1] = n.g[i][1] + [op[2]]
    elif kind == "update_new":
        n.g.append([op[1], [op[1], op[2]]])
    elif kind == "remove":
        del n.g[n.idx(op[1])]
    elif kind == "pop":
        del n.g[op[1]]
    elif kind == "sort":
        strs = sorted([g for g in n.g if isinstance(g[0], str)], key=lambda g: g[0])
        nums = sorted([g for g in n.g if not isinstance(g[0], str)], key=lambda g: (g[0] != g[0], g[0] if g[0] == g[0] else 0))  # NaN last
        n.g = strs + nums
    elif kind == "sort_by":
        n.g = [n.g[n.idx(l)] for l in op[1]]
    elif kind == "replace_group_leader":
        i = n.idx(op[1])
        n.g[i][0] = op[2]
    elif kind in ("copy", "rebuild_from_content"):
        pass
    else:
        raise ValueError(kind)
    return n


def apply_real(GL, g, op):
    """Applies op on the real object; returns the object to continue with (sort/sort_by/copy return new objects)."""
    kind = op[0]
    if kind == "group":
        g.group(op[1], op[2])
    elif kind == "group_list":
        g.group_list(list(op[1]), op[2])
    elif kind == "append":
        g.append(op[1])
    elif kind == "update_extend":
        g.update({op[1]: list(g.content[op[1]]) + [op[2]]})
    elif kind == "update_new":
        g.update({op[1]: [op[1], op[2]]})
    elif kind == "remove":
        g.remove(op[1])
    elif kind == "pop":
        g.pop(op[1])
    elif kind == "sort":
        return g.sort()
    elif kind == "sort_by":
        return g.sort_by(list(op[1]))
    elif kind == "replace_group_leader":
        g.replace_group_leader(op[1], op[2])
    elif kind == "copy":
        return GL(g)
    elif kind == "rebuild_from_content":
        return GL({k: list(g.content[k]) for k in list(g)})  # dict in *list* order (content's own key order is unspecified)
    return g


def compare(g, m, universe, stats):
    """Offline comparison of the real object with the reference model. Returns a problem string or None."""
    real_leaders = list(g)
    ml = m.leaders()
    if len(real_leaders) != len(ml) or not all(same(a, b) for a, b in zip(real_leaders, ml)):
        return f"list order {real_leaders!r} != model {ml!r}"
    if len(g.content) != len(ml):
        return f"content keys {list(g.content)!r} != model leaders {ml!r}"
    for l, mem in m.g:
        key = next((k for k in g.content if same(k, l)), None)
        if key is None:
            return f"leader {l!r} missing from content"
        real = g.content[key]
        if len(real) != len(mem) or not all(any(same(x, y) for y in real) for x in mem):
            return f"content[{l!r}]={real!r} != model {mem!r}"
        got = g.get(l)
        if len(got) != len(mem) or not all(any(same(x, y) for y in got) for x in mem):
            return f"get({l!r})={got!r} != model {mem!r}"
        for x in mem:
            r = g.get_group(x)
            if not l:
                stats["falsy_leader_lookups"] += 1
            if not same(r, l):
                return f"get_group({x!r})={r!r} but {x!r} is in group {l!r}"
            if not g.contains(x):
                return f"contains({x!r}) is False for a member of {l!r}"
    vals = g.values()
    mv = m.all_values()
    if len(vals) != len(mv) or not all(any(same(x, y) for y in vals) for x in mv):
        return f"values()={vals!r} != model {mv!r}"
    for v in universe:
        if not m.has_value(v):
            if g.contains(v):
                return f"contains({v!r}) is True for an absent value"
            r = g.get_group(v)
            if not same(r, v):
                return f"get_group({v!r})={r!r} for an absent value (expected the value itself)"
            if g.get(v) != []:
                return f"get({v!r})={g.get(v)!r} for an absent value"
    return None


def raw_clone(GL, g):
    """Harness-side clone that runs no GroupedList code (copy.deepcopy would call the overridden append)."""
    new = GL.__new__(GL)
    list.extend(new, list(g))
    new.content = {k: list(v) for k, v in g.content.items()}
    return new


def construct(GL, spec):
    kind, arg = spec
    if kind == "list":
        return GL(list(arg))
    if kind == "array":
        return GL(np.array(arg))
    return GL({k: list(v) for k, v in arg.items()})


def subtree_roots(tier):
    roots = []
    for spec, model in initial_states():
        ops = valid_ops(model, U4)
        for op in ops:
            roots.append((spec, op))
    return roots


_ROOTS = {}


def n_cases(tier):
    if tier not in _ROOTS:
        _ROOTS[tier] = subtree_roots(tier)
    return len(_ROOTS[tier]) + N_RANDOM[tier]


def dfs(GL, g, m, depth, maxdepth, path, stats, universe):
    """explores all valid continuations; returns a violation dict or None"""
    if depth >= maxdepth:
        return None
    for op in valid_ops(m, universe):
        g_before = raw_clone(GL, g)
        try:
            g2 = apply_real(GL, g_before, op)
        except Exception as e:  # a valid operation must not raise
            return {"kind": "valid_operation_raised", "msg": f"{type(e).__name__}: {e}", "history": path + [op]}
        m2 = apply_model(m, op)
        stats["nodes"] += 1
        prob = compare(g2, m2, universe, stats)
        if prob is None and op[0] in ("sort", "sort_by", "copy", "rebuild_from_content"):
            # operations returning a new object must leave the receiver as it was
            prob0 = compare(g_before, m, universe, stats)
            if prob0 is not None:
                prob = "receiver changed by a non-mutating operation: " + prob0
        if prob is not None:
            return {"kind": "model_divergence", "msg": prob, "history": path + [op]}
        if any(len(mem) > 1 for _, mem in m2.g):
            stats["grouped_states"] += 1
        r = dfs(GL, g2, m2, depth + 1, maxdepth, path + [op], stats, universe)
        if r is not None:
            return r
    return None


UNIVERSES = {
    "str": ["a", "b", "c", "d", "e", "f", "", "__NAN__"],
    "int": [0, 1, 2, 3, 5, 8, -1, 100],
    "float": [0.0, 0.5, 1.5, -2.25, 1e15, 1e-8, float("inf"), 3.0],
    "mixed": ["a", "", 0, 1.5, "__NAN__", "__OTHER__", 2, "2"],
    "sentinel": ["__NAN__", "__OTHER__", "x", "y", 0.0, 10, "10", "z"],
}


def random_history(GL, rng, stats):
    uname = gen.pick(rng, list(UNIVERSES))
    universe = UNIVERSES[uname]
    k0 = int(rng.integers(0, len(universe) + 1))
    start = [universe[i] for i in rng.permutation(len(universe))[:k0]]
    g = GL(list(start))
    m = Model([(v, [v]) for v in start])
    prob = compare(g, m, universe, stats)
    hist = [("list", [repr(v) for v in start])]
    if prob:
        return {"kind": "model_divergence", "msg": prob, "history": hist}, hist, False
    length = int(rng.integers(5, 41))
    grouped = False
    for _ in range(length):
        ops = valid_ops(m, universe)
        # bias towards growth so that histories do not collapse to the empty list
        weights = np.array([3.0 if o[0] in ("group", "append", "replace_group_leader", "update_extend", "update_new") else 1.0 if o[0] not in ("remove", "pop") else 0.3 for o in ops])
        op = ops[int(rng.choice(len(ops), p=weights / weights.sum()))]
        if op[0] == "sort" and len(set(isinstance(l, str) for l in m.leaders())) > 1 and False:
            continue
        g_before = raw_clone(GL, g)
        try:
            g2 = apply_real(GL, g_before, op)
        except Exception as e:
            return {"kind": "valid_operation_raised", "msg": f"{type(e).__name__}: {e}", "history": hist + [op]}, hist, grouped
        m2 = apply_model(m, op)
        stats["nodes"] += 1
        hist.append(op)
        prob = compare(g2, m2, universe, stats)
        if prob is None and op[0] in ("sort", "sort_by", "copy", "rebuild_from_content"):
            p0 = compare(g_before, m, universe, stats)
            if p0 is not None:
                prob = "receiver changed by a non-mutating operation: " + p0
        if prob:
            return {"kind": "model_divergence", "msg": prob, "history": hist}, hist, grouped
        g, m = g2, m2
        grouped = grouped or any(len(mem) > 1 for _, mem in m.g)
    return None, hist, grouped


def classify(v):
    msg = v.get("msg", "")
    if v.get("kind") == "model_divergence" and msg.startswith("get_group(") and "is in group" in msg:
        # F6: get_group on a member of a group whose leader is falsy returns the value itself
        try:
            leader = msg.rsplit("is in group ", 1)[1]
            got = msg.split("=", 1)[1].split(" but ", 1)[0]
            member = msg[len("get_group("):].split(")=", 1)[0]
            if leader in ("0", "''", "0.0") and got == member:
                return "F6"
        except Exception:  # noqa
            pass
    return None


def run_case(tier, seed, i):
    from AutoCarver.discretizers.utils.grouped_list import GroupedList as GL
    stats = {"nodes": 0, "grouped_states": 0, "falsy_leader_lookups": 0}
    roots = _ROOTS.get(tier) or subtree_roots(tier)
    _ROOTS[tier] = roots
    viols = []
    if i < len(roots):
        spec, op = roots[i]
        model = next(m for s, m in initial_states() if s == spec)
        path = [("construct",) + tuple([spec[0], repr(spec[1])])]
        try:
            g = construct(GL, spec)
        except Exception as e:
            return {"status": "violation", "nontrivial": True, "key": f"root{i}", "violations": [{"kind": "valid_construction_raised", "msg": f"{type(e).__name__}: {e}", "history": path}]}
        prob = compare(g, model, U4, stats)
        v = None
        if prob:
            v = {"kind": "model_divergence", "msg": prob, "history": path}
        else:
            try:
                g2 = apply_real(GL, raw_clone(GL, g), op)
                m2 = apply_model(model, op)
                stats["nodes"] += 1
                prob = compare(g2, m2, U4, stats)
                if prob:
                    v = {"kind": "model_divergence", "msg": prob, "history": path + [op]}
                else:
                    v = dfs(GL, g2, m2, 2, DEPTH[tier], path + [op], stats, U4)
            except Exception as e:
                v = {"kind": "valid_operation_raised", "msg": f"{type(e).__name__}: {e}", "history": path + [op]}
        if v:
            v["mechanism"] = classify(v)
            v["history"] = [repr(o) for o in v["history"]]
            viols.append(v)
        return {"status": "violation" if viols else "ok", "nontrivial": stats["grouped_states"] > 0 or len(spec[1]) > 0,
                "key": f"dfs:{spec!r}:{op!r}", "counters": dict(stats, dfs_subtrees=1), "violations": viols,
                "sample": {"exhaustive_subtree": {"construction": repr(spec), "first_operation": repr(op), "nodes": stats["nodes"]}}}
    # random histories (batch of 100)
    rng = gen.rng_for(ID, tier, seed, i)
    n_grouped = 0
    sample = None
    keyparts = []
    for _ in range(100):
        v, hist, grouped = random_history(GL, rng, stats)
        n_grouped += bool(grouped)
        if sample is None and grouped:
            sample = {"random_history": [repr(o) for o in hist[:12]], "length": len(hist)}
        keyparts.append(len(hist))
        if v:
            v["mechanism"] = classify(v)
            v["history"] = [repr(o) for o in v["history"]]
            viols.append(v)
            break
    return {"status": "violation" if viols else "ok", "nontrivial": n_grouped > 0, "key": f"rnd:{seed}:{i}:{sum(keyparts)}",
            "counters": dict(stats, random_histories=100, random_histories_with_groups=n_grouped), "violations": viols, "sample": sample}
