"""C08 -- fit ends in a coherent fitted object or a clean AssertionError (degenerate, well-formed inputs)."""
import numpy as np
import pandas as pd

from .. import common, fitted, gen, interp

ID = "C08"
RULE = ("well-formed but degenerate frames (constants, all-missing, one non-missing row, two rows, near-unique ids, many equally "
        "rare discrete values, heavy ties, spikes next to a 0.9*threshold neighbour, NaN shares that make the remaining-quantile "
        "count round up, huge/tiny magnitudes, single category, unique strings, n from 5) for every estimator class (three "
        "carvers, Discretizer, Quantitative/Qualitative, Continuous/Categorical/OrdinalDiscretizer); fit must complete or raise "
        "AssertionError; after completion the per-feature attributes are validated structurally, every training value must be "
        "covered by values_orders (independent interpreter), dropped features must come back untouched from transform. "
        "Well-formedness is decided by the generator, never by the outcome. Non-trivial: fit completed with >= 1 kept feature or "
        "raised; distinct by data+config+class.")
ASSUMPTIONS = [
    "history() legitimately keeps the tested combinations of dropped features (flagged removed); only kept features are required to be present",
    "summary() is only required when at least one feature is kept",
    "a column is well-formed when it holds finite numbers or NaN (quantitative) / strings or numbers or NaN (qualitative) and the target is valid for the class",
]
_Q = "AutoCarver/discretizers/utils/quantitative_discretizers.py"
ANCHORS = [(_Q, "np_find_quantiles"), (_Q, "find_quantiles"), (_Q, "fit_feature"), ("AutoCarver/discretizers/discretizers.py", "min_value_counts"),
           ("AutoCarver/discretizers/utils/base_discretizers.py", "BaseDiscretizer._remove_feature"),
           ("AutoCarver/discretizers/discretizers.py", "QualitativeDiscretizer._prepare_data"),
           ("AutoCarver/carvers/base_carver.py", "BaseCarver._carve_feature")]
DECIDING_ANCHORS = [(_Q, "np_find_quantiles"), ("AutoCarver/discretizers/utils/base_discretizers.py", "BaseDiscretizer._remove_feature")]
N = {"quick": 1200, "thorough": 30000}
REQUIRED_COUNTERS = {"quick": {"tag:completed": 700, "features_dropped": 100, "training_values_covered": 50000},
                     "thorough": {"tag:completed": 15000, "features_dropped": 2000, "training_values_covered": 1000000}}
CLASSES = ["carver", "carver", "Discretizer", "QuantitativeDiscretizer", "QualitativeDiscretizer", "ContinuousDiscretizer", "CategoricalDiscretizer", "OrdinalDiscretizer"]


def n_cases(tier):
    return N[tier]


def budget_s(tier):
    return 900 if tier == "quick" else 7200


def min_nontrivial(tier):
    return 300 if tier == "quick" else 6000


def degenerate_quant(rng, n):
    flav = gen.pick(rng, ["constant", "allnan", "ids", "one_value_plus_nan", "two_values", "one_nonnan", "rare_equal", "spike_near_threshold",
                          "roundup_nan", "bigmag", "tinymag", "close4", "heavy_ties", "zipf", "discrete", "two_spikes", "int"])
    if flav == "one_nonnan":
        x = np.full(n, np.nan)
        x[int(rng.integers(n))] = 3.0
        return x, flav
    if flav == "spike_near_threshold":
        # a value just below the over-representation threshold next to one just above
        x = rng.normal(0, 1, n)
        q = gen.pick(rng, [4, 5, 8, 10])
        k1, k2 = int(np.ceil(n / q)), max(1, int(0.9 * n / q))
        pos = rng.permutation(n)
        x[pos[:k1]] = 0.5
        x[pos[k1:k1 + k2]] = 0.25
        return x, flav
    if flav == "roundup_nan":
        # few distinct values + NaN share such that round(len/len_df*q) exceeds what the values can fill
        k = int(rng.integers(3, 8))
        p = rng.dirichlet(np.ones(k) * 0.7)
        x = rng.choice(k, n, p=p).astype(float) + 4
        m = rng.random(n) < gen.pick(rng, [0.03, 0.06, 0.1])
        x[m] = np.nan
        return x, flav
    if flav == "heavy_ties":
        x = np.round(rng.normal(0, 1.2, n))
        return x, flav
    x, meta = gen.quant_column(rng, n, flav)
    return gen.cast_quant(x, meta["dtype"]), flav


def degenerate_qual(rng, n):
    flav = gen.pick(rng, ["single", "allnan", "ids", "two", "rare_many", "numeric", "normal", "normal_nan", "one_nonnan"])
    vals = np.empty(n, dtype=object)
    if flav == "single":
        vals[:] = "only"
    elif flav == "allnan":
        vals[:] = np.nan
    elif flav == "ids":
        for i in range(n):
            vals[i] = f"id{i}"
    elif flav == "two":
        m = rng.random(n) < gen.pick(rng, [0.5, 0.1, 0.02])
        vals[:] = "a"
        vals[m] = "b"
    elif flav == "rare_many":
        k = max(2, n // 3)
        for i in range(n):
            vals[i] = f"c{int(rng.integers(k))}"
        vals[: n // 3] = "big"
    elif flav == "numeric":
        v, codes, names, meta = gen.qual_column(rng, n, style=gen.pick(rng, ["numeric_int", "numeric_float", "mixed_num"]))
        vals = v
    elif flav == "one_nonnan":
        vals[:] = np.nan
        vals[int(rng.integers(n))] = "x"
    else:
        v, codes, names, meta = gen.qual_column(rng, n, nan_share=0.2 if flav == "normal_nan" else 0)
        vals = v
    return vals, flav


def make_case(rng):
    c = gen.Case()
    n = int(gen.pick(rng, [5, 8, 12, 20, 34, 50, 100, 200, 400]))
    c.kind = gen.pick(rng, ["binary", "binary", "continuous", "multiclass"])
    cols = {}
    flavs = {}
    nf = int(rng.integers(1, 5))
    for j in range(nf):
        t = gen.pick(rng, ["quant", "quant", "cat", "ord"])
        name = f"{t[0]}{j}"
        if t == "quant":
            cols[name], flavs[name] = degenerate_quant(rng, n)
            c.quant.append(name)
        else:
            v, fl = degenerate_qual(rng, n)
            flavs[name] = fl
            if t == "ord":
                v = np.array([np.nan if interp.is_nan(x) else (x if isinstance(x, str) else interp.str_form(x)) for x in v], dtype=object)
                ranking = sorted({x for x in v if not interp.is_nan(x)})
                if rng.random() < 0.5:
                    ranking = [ranking[k] for k in rng.permutation(len(ranking))]
                if rng.random() < 0.3:
                    ranking.insert(int(rng.integers(0, len(ranking) + 1)), "never")
                if not ranking:
                    ranking = ["never"]
                c.values_orders[name] = ranking
                c.ordinal.append(name)
            else:
                c.qual.append(name)
            cols[name] = v
    cols["untouched"] = rng.normal(0, 1, n)
    c.X = pd.DataFrame(cols)
    if c.kind == "binary":
        y = (rng.random(n) < gen.pick(rng, [0.5, 0.2])).astype(int)
        y[0], y[1] = 0, 1
    elif c.kind == "continuous":
        y = rng.normal(0, 1, n) if rng.random() < 0.5 else rng.integers(0, 6, n).astype(float)
        if len(np.unique(y)) < 3:
            y[:3] = [-1.5, 7.5, 9.5]
    else:
        k = 3
        y = rng.integers(0, k, n)
        y[:3] = [0, 1, 2]
        if rng.random() < 0.5:
            y = np.array(["a", "b", "c"], dtype=object)[y]
    idx = gen.index_for(rng, n)
    c.X.index = idx
    c.y = pd.Series(y, index=idx)
    c.config = gen.carver_config(rng, "binary" if c.kind == "multiclass" else c.kind)
    c.config["min_freq"] = gen.pick(rng, [0.02, 0.05, 0.07, 0.1, 0.12, 0.15, 0.2, 0.25, 0.3, 0.4, 0.5])
    gen.tame(c.config, limit=300)
    c.meta["flavours"] = flavs
    return c


def build(case, which):
    from AutoCarver.discretizers.utils.qualitative_discretizers import CategoricalDiscretizer, OrdinalDiscretizer
    from AutoCarver.discretizers.utils.quantitative_discretizers import ContinuousDiscretizer
    mf = case.config["min_freq"]
    if which == "ContinuousDiscretizer":
        return ContinuousDiscretizer(quantitative_features=list(case.quant), min_freq=mf, copy=True)
    if which == "CategoricalDiscretizer":
        return CategoricalDiscretizer(qualitative_features=list(case.qual), min_freq=mf, copy=True)
    if which == "OrdinalDiscretizer":
        return OrdinalDiscretizer(ordinal_features=list(case.ordinal), min_freq=mf, values_orders=case.orders_copy(), copy=True)
    return common.make_estimator(case, which)


def applicable(case, which):
    if which in ("QuantitativeDiscretizer", "ContinuousDiscretizer"):
        return bool(case.quant)
    if which == "CategoricalDiscretizer":
        # the class documents string input (QualitativeDiscretizer converts numbers beforehand)
        return bool(case.qual) and all(all(isinstance(v, str) or interp.is_nan(v) for v in case.X[f].tolist()) for f in case.qual)
    if which == "OrdinalDiscretizer":
        return bool(case.ordinal)
    if which == "QualitativeDiscretizer":
        return bool(case.qual or case.ordinal)
    return True


def run_case(tier, seed, i):
    rng = gen.rng_for(ID, tier, seed, i)
    if rng.random() < 0.35:
        case, which = fitted.object_case(rng, hostile=True, degenerate=True)
        case.meta["flavours"] = {k: v.get("flavour", v.get("style")) for k, v in case.meta.get("columns", {}).items()} or {"f": case.meta.get("ftype")}
    else:
        case = make_case(rng)
        which = gen.pick(rng, CLASSES)
    if not applicable(case, which):
        which = "carver" if rng.random() < 0.5 else "Discretizer"
    if which in ("CategoricalDiscretizer", "OrdinalDiscretizer", "ContinuousDiscretizer", "QuantitativeDiscretizer", "QualitativeDiscretizer", "Discretizer") and case.kind == "multiclass":
        # plain discretizers order categories by mean(y): they need a numeric target
        if not all(isinstance(v, (int, np.integer, float)) for v in case.y.tolist()):
            case.y = pd.Series(pd.factorize(case.y)[0], index=case.y.index)
    counters = {"features_requested": 0, "features_kept": 0, "features_dropped": 0, "training_values_covered": 0, "orders_validated": 0}
    tags = [which, case.kind]
    sample = case.describe()
    sample["estimator"] = which
    key = common.case_hash(case, which)
    obj, e = common.guarded(build, case, which)
    if e is not None:
        if common.is_assertion(e):
            return {"status": "ok", "nontrivial": True, "key": key, "tags": tags + ["assertion", "constructor_assertion"], "counters": counters, "sample": sample}
        return {"status": "violation", "nontrivial": True, "key": key, "tags": tags, "counters": counters, "sample": dict(sample, frame=gen.frame_to_json(case.X, case.y)),
                "violations": [{"kind": "constructor_internal_error", "exc": common.exc_name(e), "msg": f"{which}(...) raised {common.exc_name(e)}: {str(e)[:200]}", "mechanism": None}]}
    requested = list(obj.features)
    counters["features_requested"] += len(requested)
    import traceback
    try:
        if which == "carver":
            obj.fit(case.X, case.y)
        else:
            obj.fit(case.X, case.y)
        e = None
    except Exception as ex:  # noqa
        e = ex
        tb = traceback.extract_tb(ex.__traceback__)
        where = [f"{fr.filename.split('/AutoCarver/')[-1]}:{fr.name}" for fr in tb if "/AutoCarver/" in fr.filename][-3:]
    viols = []
    if e is not None:
        if common.is_assertion(e):
            return {"status": "ok", "nontrivial": True, "key": key, "tags": tags + ["assertion"], "counters": counters, "sample": dict(sample, assertion=str(e)[:200])}
        v = {"kind": "fit_internal_error", "exc": common.exc_name(e), "where": where, "msg": f"{which}.fit raised {common.exc_name(e)}: {str(e)[:160]} @ {where}",
             "flavours": case.meta["flavours"]}
        v["mechanism"] = classify(v, case)
        return {"status": "violation", "nontrivial": True, "key": key, "tags": tags, "counters": counters, "sample": dict(sample, frame=gen.frame_to_json(case.X, case.y)), "violations": [v]}
    tags.append("completed")
    kept = list(obj.features)
    counters["features_kept"] += len(kept)
    dropped = [f for f in requested if f not in kept]
    counters["features_dropped"] += len(dropped)
    ks = set(kept)
    # per-feature attributes refer to exactly the kept features
    for name, keys in (("values_orders", set(obj.values_orders)), ("input_dtypes", set(obj.input_dtypes) if isinstance(obj.input_dtypes, dict) else ks),
                       ("labels_per_values", set(obj.labels_per_values)), ("features_dropna", set(obj.features_dropna)),
                       ("quantitative+qualitative_features", set(obj.quantitative_features) | set(obj.qualitative_features)),
                       ("features_casting", {c for cs in obj.features_casting.values() for c in cs})):
        if keys != ks:
            viols.append({"kind": "attribute_not_exactly_kept_features", "msg": f"{name} refers to {sorted(keys ^ ks)} beyond/without the kept features {sorted(ks)}"})
    if len(set(kept)) != len(kept):
        viols.append({"kind": "duplicate_feature", "msg": f"features has duplicates: {kept}"})
    if kept:
        s, e = common.guarded(obj.summary)
        if e is not None:
            viols.append({"kind": "summary_raised", "exc": common.exc_name(e), "msg": f"summary() raised {common.exc_name(e)}: {str(e)[:160]}"})
        else:
            sf = set(s.index.get_level_values("feature"))
            if sf != ks:
                viols.append({"kind": "summary_not_exactly_kept_features", "msg": f"summary() lists {sorted(sf ^ ks)} beyond/without the kept features"})
        if getattr(obj, "_history", None) is not None:
            h, e = common.guarded(obj.history)
            if e is not None:
                viols.append({"kind": "history_raised", "exc": common.exc_name(e), "msg": f"history() raised {common.exc_name(e)}: {str(e)[:160]}"})
            elif h is not None and len(h) and not ks <= set(h["feature"]):
                viols.append({"kind": "history_misses_kept_feature", "msg": f"history() misses kept features {sorted(ks - set(h['feature']))}"})
    # every values_orders entry is a well-formed ordered partition covering every training value
    for f in kept:
        snap = interp.snapshot(obj.values_orders[f])
        counters["orders_validated"] += 1
        p = interp.wellformed_problem(snap)
        if p:
            viols.append({"kind": "values_orders_malformed", "feature": f, "msg": f"{f}: {p}", "detail": [(repr(l), [repr(m) for m in mem][:8]) for l, mem in snap][:10]})
            continue
        raw = fitted.raw_column_of(obj, f)
        quant = fitted.feature_kind(obj, f) == "quant"
        vals = case.X[raw].tolist()
        g = interp.groups_of(snap, vals, quant, obj.str_nan)
        counters["training_values_covered"] += len(vals)
        miss = [v for v, gi in zip(vals, g) if gi is None]
        if miss:
            viols.append({"kind": "training_value_not_covered", "feature": f, "msg": f"{f}: training value {miss[0]!r} belongs to no group of values_orders"})
    # dropped features are left untouched by transform
    out, e = common.guarded(obj.transform, case.X.copy())
    if e is not None:
        viols.append({"kind": "transform_train_raised", "exc": common.exc_name(e), "msg": f"transform(X_train) raised {common.exc_name(e)} after a completed fit: {str(e)[:160]}"})
    else:
        for f in dropped + ["untouched"]:
            if f in out.columns and f in case.X.columns:
                if common.series_diff(out[f].tolist(), case.X[f].tolist()) or str(out[f].dtype) != str(case.X[f].dtype):
                    viols.append({"kind": "dropped_feature_modified", "feature": f, "msg": f"dropped/non-feature column {f} modified by transform"})
    for v in viols:
        v.setdefault("flavours", case.meta["flavours"])
        v["mechanism"] = classify(v, case)
    sample["kept"] = kept
    sample["dropped"] = dropped
    if viols:
        sample["frame"] = gen.frame_to_json(case.X, case.y)
    return {"status": "violation" if viols else "ok", "nontrivial": bool(kept), "key": key, "tags": tags, "counters": counters, "violations": viols[:5], "sample": sample}


def classify(v, case):
    return None
