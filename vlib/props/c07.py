"""C07 -- fit/transform coherence, row-wise purity and absence of side effects (boundary recorder over histories)."""
import numpy as np
import pandas as pd

from .. import common, fitted, gen, interp

ID = "C07"
RULE = ("for every generated object (all estimator classes, copy=True mostly): (a) fit_transform on a fresh estimator vs "
        "fit+transform on another fresh identical one; (b) a random history of 3..8 transform calls on the training frame, row "
        "subsets, permutations, re-indexed copies, the dev frame and new frames (accepted or rejected): each output must be the "
        "corresponding rows of the full result, repeated calls identical, the estimator snapshot (features, values_orders, "
        "labels, dtypes, JSON) unchanged after every call, output index/columns = input's (+ casted columns for Multiclass), "
        "non-feature columns untouched; (c) with copy=True X, y, X_dev, y_dev bit-identical (values, dtypes, index, column "
        "order) before/after fit and every transform. Non-trivial: history with >= 2 different frames on an object keeping a "
        "feature; distinct by data+config+class+history.")
ASSUMPTIONS = [
    "outputs are compared by value (NaN == NaN, int64 vs float64 of equal labels is a pandas NaN up-cast artefact)",
    "with copy=False the library is allowed to modify the frames it is given; side-effect clauses are only checked with copy=True",
    "re-indexing uses unique index labels",
]
_BD = "AutoCarver/discretizers/utils/base_discretizers.py"
ANCHORS = [(_BD, "BaseDiscretizer._prepare_data"), (_BD, "BaseDiscretizer._cast_features"), (_BD, "BaseDiscretizer.transform"),
           (_BD, "BaseDiscretizer._transform_quantitative"), (_BD, "BaseDiscretizer._transform_qualitative"), (_BD, "BaseDiscretizer._check_new_values"),
           ("AutoCarver/carvers/base_carver.py", "BaseCarver.fit"), ("AutoCarver/discretizers/discretizers.py", "Discretizer.fit")]
DECIDING_ANCHORS = [(_BD, "BaseDiscretizer.transform")]
N = {"quick": 400, "thorough": 8000}
REQUIRED_COUNTERS = {"quick": {"transform_calls": 1500, "fit_transform_pairs": 200, "input_fingerprints_compared": 1500, "subset_calls": 300},
                     "thorough": {"transform_calls": 30000, "fit_transform_pairs": 4000, "input_fingerprints_compared": 30000, "subset_calls": 6000}}


def n_cases(tier):
    return N[tier]


def budget_s(tier):
    return 900 if tier == "quick" else 7200


def min_nontrivial(tier):
    return 100 if tier == "quick" else 2000


def fingerprints(case):
    return {k: common.frame_fingerprint(v) for k, v in (("X", case.X), ("y", case.y), ("X_dev", case.X_dev), ("y_dev", case.y_dev))}


def run_case(tier, seed, i):
    rng = gen.rng_for(ID, tier, seed, i)
    case, which = fitted.object_case(rng, hostile=rng.random() < 0.2)
    copy_flag = bool(rng.random() < 0.8)
    case.config["copy"] = copy_flag
    counters = {"transform_calls": 0, "fit_transform_pairs": 0, "input_fingerprints_compared": 0, "subset_calls": 0, "rejected_calls": 0, "snapshots_compared": 0}
    tags = [which, case.kind, "copy_" + str(copy_flag)]
    sample = case.describe()
    sample["estimator"] = which
    viols = []
    key = common.case_hash(case, which)

    def mk():
        if which == "carver":
            return gen.make_carver(case)
        return gen.make_discretizer(case, which, copy=copy_flag)

    def done(nontrivial, hist=None):
        for v in viols:
            v["mechanism"] = None
        if hist is not None:
            sample["history"] = hist
        if viols:
            sample["frame"] = gen.frame_to_json(case.X, case.y)
        return {"status": "violation" if viols else "ok", "nontrivial": nontrivial, "key": key + str(hist)[:0], "tags": tags, "counters": counters,
                "violations": viols[:6], "sample": sample}

    # ---- (a)+(c) fit on fresh estimator A, inputs fingerprinted
    before = fingerprints(case)
    fk = gen.fit_kwargs(case) if which == "carver" else {}
    A = mk()
    if copy_flag:
        _, e = common.guarded(A.fit, case.X, case.y, **fk)
    else:
        _, e = common.guarded(A.fit, case.X.copy(), case.y.copy(), **{k: v.copy() for k, v in fk.items()})
    if e is not None:
        return {"status": "skip", "nontrivial": False, "tags": tags + ["fit_" + ("assertion" if common.is_assertion(e) else "internal_error:" + common.exc_name(e))], "counters": counters, "sample": sample}
    after = fingerprints(case)
    counters["input_fingerprints_compared"] += 4
    if copy_flag and before != after:
        changed = [k for k in before if before[k] != after[k]]
        viols.append({"kind": "fit_modified_inputs", "msg": f"fit with copy=True modified {changed}"})
        return done(True)
    full, e = common.guarded(A.transform, case.X if copy_flag else case.X.copy())
    counters["transform_calls"] += 1
    if e is not None:
        viols.append({"kind": "transform_train_raised", "msg": f"transform(X_train) raised {common.exc_name(e)}: {str(e)[:200]}"})
        return done(True)
    if copy_flag:
        after2 = fingerprints(case)
        counters["input_fingerprints_compared"] += 4
        if after2 != before:
            viols.append({"kind": "transform_modified_inputs", "msg": f"transform with copy=True modified {[k for k in before if before[k] != after2[k]]}"})
            return done(True)
    # output shape: index, columns, non-feature columns
    exp_cols = list(case.X.columns)
    if case.kind == "multiclass" and which == "carver":
        extra = [c for c in full.columns if c not in exp_cols]
        casted = [c for cs in A.features_casting.values() for c in cs]
        if sorted(extra) != sorted(c for c in casted if c not in exp_cols):
            viols.append({"kind": "unexpected_output_columns", "msg": f"extra output columns {extra} != casted features {casted}"})
        if list(full.columns[:len(exp_cols)]) != exp_cols:
            viols.append({"kind": "columns_changed", "msg": f"output columns {list(full.columns)} do not start with input columns {exp_cols}"})
    elif list(full.columns) != exp_cols:
        viols.append({"kind": "columns_changed", "msg": f"output columns {list(full.columns)} != input columns {exp_cols}"})
    if list(full.index) != list(case.X.index):
        viols.append({"kind": "index_changed", "msg": "output index differs from the input index"})
    fitted_cols = set(A.features)
    for c in exp_cols:
        if c not in fitted_cols and c in full.columns:
            if common.series_diff(full[c].tolist(), case.X[c].tolist()) or str(full[c].dtype) != str(case.X[c].dtype):
                viols.append({"kind": "non_feature_column_changed", "msg": f"column {c} is not a kept feature but was changed by transform (dtype {case.X[c].dtype} -> {full[c].dtype})"})
    if viols:
        return done(True)
    # fit_transform on a second fresh estimator
    B = mk()
    ft, e = common.guarded(B.fit_transform, case.X.copy(), case.y.copy(), **{k: v.copy() for k, v in fk.items()})
    counters["fit_transform_pairs"] += 1
    if e is not None:
        viols.append({"kind": "fit_transform_raised", "msg": f"fit_transform raised {common.exc_name(e)} although fit+transform succeeded: {str(e)[:200]}"})
        return done(True)
    d = common.frames_diff(full, ft)
    if d:
        viols.append({"kind": "fit_transform_differs", "msg": f"fit_transform(X, y) != fit(X, y).transform(X): {d[0]}"})
        return done(True)
    # ---- (b) random history of transform calls
    snap0 = common.estimator_snapshot(A)
    h0 = common.snapshot_hash(snap0)
    n = len(case.X)
    hist = []
    battery = fitted.new_frames(rng, case, A) if A.features else []
    n_calls = int(rng.integers(3, 9))
    distinct_frames = set()
    for _ in range(n_calls):
        kind = gen.pick(rng, ["train", "subset", "subset", "permutation", "reindex", "dev", "new", "bool_mask", "read_only"])
        expect = None
        if kind == "read_only":
            # the read-only views must not alter the fitted state either (a transform follows in the same history)
            which_view = gen.pick(rng, ["summary", "history", "to_json", "summary_feature"])
            if A.features:
                if which_view == "summary":
                    common.guarded(A.summary)
                elif which_view == "summary_feature":
                    common.guarded(A.summary, A.features[0])
                elif which_view == "history":
                    common.guarded(A.history)
                else:
                    common.guarded(A.to_json)
            hist.append("read_only:" + which_view)
            counters["read_only_calls"] = counters.get("read_only_calls", 0) + 1
            # (history() tags its stored records with the feature name, which shows in a later to_json(): the statement is about
            #  what transform relies on, so the JSON export is left out of this comparison and the reference JSON is refreshed)
            snap = common.estimator_snapshot(A)
            counters["snapshots_compared"] += 1
            changed = [k for k in common.snapshot_diff(snap0, snap) if k != "json"]
            if changed:
                viols.append({"kind": "state_changed_by_read_only_call", "msg": f"[{which_view}()] fitted state changed by a read-only call: {changed}"})
                break
            snap0 = snap
            h0 = common.snapshot_hash(snap0)
            continue
        if kind == "train":
            frame = case.X.copy()
            expect = full
        elif kind in ("subset", "bool_mask"):
            m = max(1, int(rng.integers(1, n + 1)))
            pos = np.sort(rng.choice(n, m, replace=False))
            frame = case.X.iloc[pos].copy()
            expect = full.iloc[pos]
            counters["subset_calls"] += 1
        elif kind == "permutation":
            pos = rng.permutation(n)
            frame = case.X.iloc[pos].copy()
            expect = full.iloc[pos]
            counters["subset_calls"] += 1
        elif kind == "reindex":
            pos = rng.permutation(n)[: max(1, n // 2)]
            frame = case.X.iloc[pos].copy()
            newidx = pd.Index([f"k{j}" for j in range(len(pos))]) if rng.random() < 0.5 else pd.Index(np.arange(len(pos)) * 7 - 3)
            frame.index = newidx
            expect = full.iloc[pos].copy()
            expect.index = newidx
            counters["subset_calls"] += 1
        elif kind == "dev" and case.X_dev is not None:
            frame = case.X_dev.copy()
        elif battery:
            desc, frame, _ = battery[int(rng.integers(len(battery)))]
            frame = frame.copy()
            kind = "new:" + desc
        else:
            frame = case.X.copy()
            expect = full
            kind = "train"
        hist.append(kind)
        distinct_frames.add(kind.split(":")[0] + str(len(frame)))
        fp = common.frame_fingerprint(frame)
        frame_before = frame.copy()
        out, e = common.guarded(A.transform, frame)
        counters["transform_calls"] += 1
        if e is not None:
            counters["rejected_calls"] += 1
            if expect is not None:
                viols.append({"kind": "transform_of_training_rows_raised", "msg": f"[{kind}] transform of training rows raised {common.exc_name(e)}: {str(e)[:200]}"})
                break
        else:
            if copy_flag:
                counters["input_fingerprints_compared"] += 1
                if common.frame_fingerprint(frame) != fp:
                    viols.append({"kind": "transform_modified_inputs", "msg": f"[{kind}] transform with copy=True modified the frame it was given"})
                    break
            if list(out.index) != list(frame.index):
                viols.append({"kind": "index_changed", "msg": f"[{kind}] output index differs from input index"})
                break
            bad = [c for c in frame.columns if c not in fitted_cols and c in out.columns and
                   (common.series_diff(out[c].tolist(), frame_before[c].tolist()) or str(out[c].dtype) != str(frame_before[c].dtype))]
            if bad:
                viols.append({"kind": "non_feature_column_changed", "msg": f"[{kind}] non-feature column(s) {bad} changed by transform"})
                break
            if expect is not None:
                d = common.frames_diff(out, expect)
                if d:
                    viols.append({"kind": "row_purity_broken", "msg": f"[{kind}] transform of a subset/reordering differs from the rows of the full result: {d[0]}"})
                    break
            # repeated call on the same frame gives the same result
            if rng.random() < 0.4:
                out2, e2 = common.guarded(A.transform, frame if copy_flag else out.copy() if False else frame)
                if copy_flag:
                    counters["transform_calls"] += 1
                    if e2 is not None or common.frames_diff(out, out2):
                        viols.append({"kind": "repeated_transform_differs", "msg": f"[{kind}] second transform of the same frame {'raised ' + common.exc_name(e2) if e2 is not None else 'gave a different result'}"})
                        break
        counters["snapshots_compared"] += 1
        snap = common.estimator_snapshot(A)
        if common.snapshot_hash(snap) != h0:
            viols.append({"kind": "state_changed_by_transform", "msg": f"[{kind}] fitted state changed by a transform call: {common.snapshot_diff(snap0, snap)}"})
            break
    nontrivial = len(distinct_frames) >= 2 and len(A.features) > 0
    key2 = key + ":" + "|".join(hist)
    r = done(nontrivial, hist)
    r["key"] = key2
    return r
