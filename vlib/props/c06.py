"""C06 -- JSON save/load round trip preserves behaviour (differential: original vs rebuilt object)."""
import json

import numpy as np

from .. import common, fitted, gen, interp

ID = "C06"
RULE = ("every fitted object (Binary/Multiclass/Continuous carvers, Discretizer family; int / float / float32 / integer-valued "
        "float / huge / tiny magnitudes, numeric categories, NaN) is dumped with json.dumps(to_json()), parsed back, rebuilt with "
        "load_carver/load_discretizer and compared with the original on the training frame, on the C05 new-frame battery and on "
        "the C03 probe frames (values and accept/reject decision), on summary(), and its own JSON is compared with the first "
        "dump. Non-trivial: an object with a feature of >= 2 groups; distinct by data+config+class.")
ASSUMPTIONS = [
    "load_* always receives a freshly parsed dict (the loaders mutate their argument; outside the statement)",
    "outputs are compared by value (NaN == NaN, 1 == 1.0); summary() frames are compared as sets of (feature, dtype, label, sorted content)",
    "JSON documents are compared after parsing (key order irrelevant); the 'features' entry is compared as a set, its order being an artefact of list(set(features))",
]
_SER = "AutoCarver/discretizers/utils/serialization.py"
ANCHORS = [(_SER, "json_serialize_values_orders"), (_SER, "json_deserialize_values_orders"), (_SER, "convert_value_to_base_type"),
           (_SER, "json_serialize_history"), ("AutoCarver/discretizers/utils/base_discretizers.py", "load_discretizer"),
           ("AutoCarver/carvers/base_carver.py", "load_carver"), ("AutoCarver/carvers/base_carver.py", "BaseCarver.to_json")]
DECIDING_ANCHORS = [(_SER, "json_deserialize_values_orders"), ("AutoCarver/carvers/base_carver.py", "load_carver")]
N = {"quick": 500, "thorough": 10000}
REQUIRED_COUNTERS = {"quick": {"round_trips": 350, "frames_compared": 3000, "carver_round_trips": 100, "edits_before_save": 40},
                     "thorough": {"round_trips": 7000, "frames_compared": 60000, "carver_round_trips": 2000, "edits_before_save": 800}}


def n_cases(tier):
    return N[tier]


def budget_s(tier):
    return 900 if tier == "quick" else 7200


def min_nontrivial(tier):
    return 120 if tier == "quick" else 2500


def summary_rows(obj):
    s = obj.summary()
    rows = set()
    for (feat, dtype), r in s.iterrows():
        rows.add((feat, dtype, common._tag(r["label"]), tuple(sorted(common._tag(c) for c in r["content"]))))
    return rows


def compare_on(orig, rel, frame, desc):
    a, ea = common.guarded(orig.transform, frame.copy())
    b, eb = common.guarded(rel.transform, frame.copy())
    if (ea is None) != (eb is None):
        return f"[{desc}] original {'accepted' if ea is None else 'raised ' + common.exc_name(ea)} but rebuilt object {'accepted' if eb is None else 'raised ' + common.exc_name(eb) + ': ' + str(eb)[:120]}"
    if ea is not None:
        if type(ea) is not type(eb):
            return f"[{desc}] original raised {common.exc_name(ea)}, rebuilt raised {common.exc_name(eb)}"
        return None
    d = common.frames_diff(a, b)
    if d:
        return f"[{desc}] outputs differ: {d[0]}"
    return None


def run_case(tier, seed, i):
    rng = gen.rng_for(ID, tier, seed, i)
    case, which = fitted.object_case(rng, hostile=rng.random() < 0.5)
    counters = {"round_trips": 0, "frames_compared": 0, "carver_round_trips": 0, "probe_frames": 0}
    tags = [which, case.kind]
    sample = case.describe()
    sample["estimator"] = which
    obj, e = fitted.fit_object(case, which)
    if e is not None:
        return {"status": "skip", "nontrivial": False, "tags": tags + ["fit_" + ("assertion" if common.is_assertion(e) else "internal_error:" + common.exc_name(e))], "counters": counters, "sample": sample}
    viols = []
    key = common.case_hash(case, which)
    # manually edited groups (valid update_discretizer calls, as in C17) before saving
    edits = []
    if which == "carver" and case.kind != "multiclass" and obj.features and rng.random() < 0.5:
        from . import c17
        for _ in range(int(rng.integers(1, 3))):
            cands = c17.candidate_edits(case, obj, rng)
            if not cands:
                break
            kinds = sorted({c[5] for c in cands})
            kind = gen.pick(rng, kinds)
            pool = [c for c in cands if c[5] == kind]
            desc, f, mode, discarded, kept, kind = pool[int(rng.integers(len(pool)))]
            _, ee = common.guarded(obj.update_discretizer, f, mode, discarded, kept)
            if ee is None:
                edits.append(desc)
                counters["edits_before_save"] = counters.get("edits_before_save", 0) + 1
        if edits:
            tags.append("edited")
            sample["edits"] = edits
            key = common.case_hash(case, which + "|".join(edits))
    nontrivial = any(len(obj.values_orders[f]) >= 2 for f in obj.features)

    def done():
        for v in viols:
            v["mechanism"] = classify(v, which)
        if viols:
            sample["frame"] = gen.frame_to_json(case.X, case.y)
        return {"status": "violation" if viols else "ok", "nontrivial": nontrivial, "key": key, "tags": tags, "counters": counters, "violations": viols[:6], "sample": sample}

    # 1. serialisable by the standard json module
    js, e = common.guarded(lambda: json.dumps(obj.to_json()))
    if e is not None:
        viols.append({"kind": "to_json_not_serialisable", "msg": f"json.dumps(to_json()) raised {common.exc_name(e)}: {str(e)[:200]}"})
        return done()
    # 2. rebuild
    rel, e = common.guarded(fitted.json_reload, obj)
    if e is not None:
        viols.append({"kind": "load_raised", "msg": f"load_* raised {common.exc_name(e)}: {str(e)[:200]}"})
        return done()
    rel = rel[0]
    counters["round_trips"] += 1
    if which == "carver":
        counters["carver_round_trips"] += 1
    # 3. same behaviour on any frame
    frames = [("train", case.X)]
    if case.X_dev is not None:
        frames.append(("dev", case.X_dev))
    if obj.features:
        frames += [(d, f) for d, f, _ in fitted.new_frames(rng, case, obj)]
        for f in [x for x in obj.features if fitted.feature_kind(obj, x) == "quant"][:3]:
            pts, _ = fitted.probe_values(interp.snapshot(obj.values_orders[f]))
            frames.append((f"probe:{f}", fitted.probe_frame(case, obj, f, pts)))
            counters["probe_frames"] += 1
    for desc, frame in frames:
        counters["frames_compared"] += 1
        p = compare_on(obj, rel, frame, desc)
        if p:
            viols.append({"kind": "behaviour_differs_after_reload", "msg": p})
            if len(viols) > 3:
                break
    # 4. same summary
    sa, ea = common.guarded(summary_rows, obj)
    sb, eb = common.guarded(summary_rows, rel)
    if obj.features:
        if (ea is None) != (eb is None):
            viols.append({"kind": "summary_differs_after_reload", "msg": f"summary(): original {'ok' if ea is None else common.exc_name(ea)}, rebuilt {'ok' if eb is None else common.exc_name(eb) + ': ' + str(eb)[:150]}"})
        elif ea is None and sa != sb:
            diff = sorted(sa ^ sb, key=repr)[:3]
            viols.append({"kind": "summary_differs_after_reload", "msg": f"summary() differs after reload, e.g. {diff}"})
    # 5. serialising the rebuilt object yields the same JSON again
    js2, e = common.guarded(lambda: json.dumps(rel.to_json()))
    if e is not None:
        viols.append({"kind": "reloaded_to_json_not_serialisable", "msg": f"json.dumps(reloaded.to_json()) raised {common.exc_name(e)}: {str(e)[:200]}"})
    else:
        d1, d2 = json.loads(js), json.loads(js2)
        for k in ("values_orders",):
            if isinstance(d1.get(k), str):
                d1[k] = json.loads(d1[k])
            if isinstance(d2.get(k), str):
                d2[k] = json.loads(d2[k])
        for d in (d1, d2):  # the order of the feature list is not information (the constructor stores list(set(features)))
            if isinstance(d.get("features"), list):
                d["features"] = sorted(d["features"])
        if d1 != d2:
            keys = sorted(k for k in set(d1) | set(d2) if d1.get(k) != d2.get(k))
            viols.append({"kind": "json_not_stable", "keys": keys, "msg": f"to_json() of the rebuilt object differs from the first dump in keys {keys}"})
    return done()


def classify(v, which):
    return None
