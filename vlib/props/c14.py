"""C14 -- selectors return the best-ranked, mutually uncorrelated features (clause validation with recomputed numbers)."""
import contextlib
import io
import math

import numpy as np
import pandas as pd

from .. import common, gen, interp, oracles

ID = "C14"
NEEDS_GL = False
RULE = ("frames of 3..10 quantitative and 2..6 qualitative candidate features built around a latent score: signal / noise / "
        "near-duplicates (x+eps, monotone maps, exact copies) / constants / mostly-NaN columns / categorical coarsenings of each "
        "other; binary, multiclass and continuous targets; n_best 1..#features, thresh_corr in {0.3,0.6,0.9,1}; Classification"
        "Selector and RegressionSelector with default and user-supplied measure/filter (cramerv_measure, R_measure, "
        "pearson_filter, cramerv_filter, outlier measures first). The returned list is validated clause by clause against "
        "independently recomputed association values (tie-proof), the library-reported values are compared with the "
        "recomputation, and X, y are fingerprinted before/after. Non-trivial: >= 3 candidates of a type with a defined measure "
        "and at least one feature left out; distinct by data+config.")
ASSUMPTIONS = [
    "chi2 uses Yates' correction on 2x2 tables (scipy default); Tschuprow T = sqrt(chi2/n/sqrt((r-1)(c-1))), Cramer V = sqrt(chi2/n/(min(r,c)-1)) on pairwise complete rows",
    "a measure is undefined when the statistic is NaN, the mode share >= thresh_mode or the NaN share >= thresh_nan",
    "association between two features is 0 when it cannot be computed (constant column)",
    "tolerance: relative 1e-9 on measures; 1e-12 around thresh_corr (a pair sitting on the threshold is ambiguous)",
    "one association measure per feature type, or two for the quantitative block of ClassificationSelector (thresh_kruskal=inf so that the second one runs); with several measures a left-out feature needs an admissible reason under each of them, the list is ordered by the last measure and holds at most n_best features per measure",
]
_S = "AutoCarver/selectors/"
ANCHORS = [(_S + "base_selector.py", "BaseSelector._select_features"), (_S + "base_selector.py", "BaseSelector.select"), (_S + "base_selector.py", "apply_filters"),
           (_S + "filters/quantitative_filters.py", "quantitative_filter"), (_S + "filters/qualitative_filters.py", "qualitative_filter"),
           (_S + "filters/qualitative_filters.py", "qualitative_worst_corr"), (_S + "filters/base_filters.py", "thresh_filter"),
           (_S + "measures/quantitative_measures.py", "kruskal_measure"), (_S + "measures/quantitative_measures.py", "distance_measure"),
           (_S + "measures/quantitative_measures.py", "R_measure"), (_S + "measures/qualitative_measures.py", "tschuprowt_measure"),
           (_S + "measures/qualitative_measures.py", "cramerv_measure"), (_S + "measures/base_measures.py", "mode_measure")]
DECIDING_ANCHORS = [(_S + "base_selector.py", "BaseSelector._select_features"), (_S + "filters/quantitative_filters.py", "quantitative_filter"),
                    (_S + "filters/qualitative_filters.py", "qualitative_worst_corr")]
N = {"quick": 1000, "thorough": 16000}
REQUIRED_COUNTERS = {"quick": {"selections": 250, "blocks_validated": 400, "features_left_out_checked": 500, "library_values_compared": 1500, "correlated_pairs_seen": 100},
                     "thorough": {"selections": 5000, "blocks_validated": 8000, "features_left_out_checked": 10000, "library_values_compared": 30000, "correlated_pairs_seen": 2000}}
TOL = 1e-9


def n_cases(tier):
    return N[tier]


def budget_s(tier):
    return 900 if tier == "quick" else 7200


def min_nontrivial(tier):
    return 100 if tier == "quick" else 2000


def make_frame(rng, target_kind, allow_dups=True, perfect=None):
    n = int(gen.pick(rng, [80, 200, 500]))
    lat = rng.normal(0, 1, n)
    if target_kind == "binary":
        y = pd.Series((lat + rng.normal(0, 0.7, n) > 0).astype(int))
    elif target_kind == "multiclass":
        y = pd.Series(np.searchsorted(np.quantile(lat, [0.33, 0.66]), lat + rng.normal(0, 0.5, n)))
    else:
        y = pd.Series(lat * 2 + rng.normal(0, 0.5, n))
    cols = {}
    kinds = {}
    nq = int(rng.integers(3, 9))
    for i in range(nq):
        pool = ["sig", "sig", "noise", "nan", "mono", "const", "discrete", "coarse"] + (["dup", "dup"] if allow_dups else [])
        kind = gen.pick(rng, pool)
        if kind == "sig":
            c = lat * gen.pick(rng, [1, -1]) + rng.normal(0, 1, n) * gen.pick(rng, [0.2, 1, 3])
        elif kind == "noise":
            c = rng.normal(0, 1, n)
        elif kind == "dup" and cols:
            src = list(cols)[int(rng.integers(len(cols)))]
            c = np.asarray(cols[src], float) * gen.pick(rng, [1, 2.0, -1.0]) + rng.normal(0, 1, n) * gen.pick(rng, [0, 0.01, 0.3])
        elif kind == "const":
            c = np.ones(n) * 3
        elif kind == "nan":
            c = lat + rng.normal(0, 1, n)
            c[rng.random(n) < gen.pick(rng, [0.1, 0.3, 0.6])] = np.nan
        elif kind == "mono":
            c = np.exp(lat / 2 + rng.normal(0, 0.3, n))
        elif kind == "discrete":
            c = np.round(lat * 2 + rng.normal(0, 1, n))
        elif kind == "coarse":
            # few integer values: quartiles, fences and the mode all sit on observed values carrying many rows
            c = np.round(lat * gen.pick(rng, [1.0, 1.5]) + rng.normal(0, 0.5, n)) * gen.pick(rng, [1.0, -1.0])
        else:
            c = rng.normal(0, 1, n)
            kind = "noise"
        cols[f"x{i}"] = np.asarray(c, float)
        kinds[f"x{i}"] = kind
    nc = int(rng.integers(2, 6))
    base_bins = {}
    for i in range(nc):
        kind = gen.pick(rng, ["sig", "sig", "noise", "coarse", "nan", "const"] + (["dup"] if allow_dups else []))
        k = int(rng.integers(2, 6))
        b = np.searchsorted(np.quantile(lat, np.linspace(0, 1, k + 1)[1:-1]), lat + rng.normal(0, 0.4, n))
        if kind == "sig":
            c = np.array([f"c{v}" for v in b], dtype=object)
        elif kind == "noise":
            c = np.array([gen.pick(rng, list("abcd")) for _ in range(n)], dtype=object)
        elif kind == "coarse":
            c = np.array([f"k{v // 2}" for v in b], dtype=object)
        elif kind == "nan":
            c = np.array([f"c{v}" for v in b], dtype=object)
            c[rng.random(n) < 0.2] = np.nan
        elif kind == "const":
            c = np.array(["same"] * n, dtype=object)
        else:
            src = [q for q in cols if q.startswith("q")]
            if src:
                s0 = cols[src[int(rng.integers(len(src)))]]
                c = np.array([v if interp.is_nan(v) else "d_" + v for v in s0], dtype=object)
            else:
                c = np.array([f"c{v}" for v in b], dtype=object)
        cols[f"q{i}"] = c
        kinds[f"q{i}"] = kind
    X = pd.DataFrame(cols)
    quant = [c for c in X if c.startswith("x")]
    qual = [c for c in X if c.startswith("q")]
    return X, y, quant, qual, kinds


# ---------------------------------------------------------------------- independent measures
def _notnan(v):
    return [not interp.is_nan(a) for a in v]


def kruskal_by(x, g):
    """H of numeric x grouped by labels g (rows with NaN x dropped)"""
    groups = {}
    for a, b in zip(x, g):
        if interp.is_nan(a) or interp.is_nan(b):
            continue
        groups.setdefault(b, []).append(float(a))
    if len(groups) < 2:
        return float("nan")
    return oracles.kruskal_H(list(groups.values()))


def chi2_pair(a, b):
    a = [None if interp.is_nan(v) else v for v in a]
    b = [None if interp.is_nan(v) else v for v in b]
    tab = oracles.crosstab(a, b)
    n = tab.sum()
    if tab.size == 0 or n == 0:
        return float("nan"), 0, 0, 0
    return oracles.chi2_stat(tab), n, len({v for v in a if v is not None}), len({v for v in b if v is not None})


def tschuprow(a, b):
    chi2, n, ra, rb = chi2_pair(a, b)
    dof = math.sqrt(max(0, (ra - 1) * (rb - 1)))
    if dof == 0:
        return 0.0
    if chi2 != chi2:
        return float("nan")
    return math.sqrt(chi2 / n / dof)


def cramerv(a, b):
    chi2, n, ra, rb = chi2_pair(a, b)
    m = min(ra, rb) - 1
    if m <= 0 or chi2 != chi2:
        return float("nan")
    return math.sqrt(chi2 / n / m)


def eta(x, g):
    """sqrt(R^2) of x ~ C(g)"""
    rows = [(float(a), b) for a, b in zip(x, g) if not interp.is_nan(a)]
    if len(rows) < 3:
        return float("nan")
    xs = np.array([r[0] for r in rows])
    tot = float(((xs - xs.mean()) ** 2).sum())
    if tot == 0:
        return float("nan")
    bet = 0.0
    groups = {}
    for a, b in rows:
        groups.setdefault(b, []).append(a)
    for v in groups.values():
        bet += len(v) * (np.mean(v) - xs.mean()) ** 2
    r2 = bet / tot
    return math.sqrt(r2) if r2 > 0 else float("nan")


def defined_basic(col, thresh_nan=0.999, thresh_mode=0.999):
    vals = col.tolist()
    n = len(vals)
    nn = [v for v in vals if not interp.is_nan(v)]
    if not (1 - len(nn) / n) < thresh_nan:
        return False
    if not nn:
        return False
    cnt = {}
    for v in nn:
        cnt[v] = cnt.get(v, 0) + 1
    if not max(cnt.values()) / n < thresh_mode:
        return False
    return True


def target_measure(name, col, y, selector_kind):
    x, yy = col.tolist(), y.tolist()
    if name == "kruskal_measure":
        return kruskal_by(x, yy) if selector_kind == "classification" else kruskal_by(yy, x)
    if name == "tschuprowt_measure":
        return tschuprow(x, yy)
    if name == "cramerv_measure":
        return cramerv(x, yy)
    if name == "R_measure":
        return eta(x, yy)
    if name == "distance_measure":
        r = oracles.pearson(x, yy)
        return 1 - r
    raise ValueError(name)


def pair_assoc(filter_name, X, f, g):
    a, b = X[f].tolist(), X[g].tolist()
    if filter_name == "spearman_filter":
        v = oracles.spearman(a, b)
    elif filter_name == "pearson_filter":
        v = oracles.pearson(a, b)
    elif filter_name == "tschuprowt_filter":
        v = tschuprow(a, b)
    else:
        v = cramerv(a, b)
    return 0.0 if v != v else abs(v)


def simulate_pass(X, feats, rk, filter_name, n_best, tc):
    """Reference greedy selection of one per-measure pass (None when near-ties make it tie-break dependent)."""
    d = [f for f in feats if rk[f] == rk[f]]
    vals = sorted(rk[f] for f in d)
    if any(abs(a - b) <= TOL * max(1.0, abs(a)) for a, b in zip(vals[:-1], vals[1:])):
        return None
    kept = []
    for f in sorted(d, key=lambda f: -rk[f]):
        if all(pair_assoc(filter_name, X, f, g) <= tc for g in kept):
            kept.append(f)
    return kept[:n_best]


def validate_block(X, y, feats, got, measure_name, filter_name, n_best, tc, selector_kind, counters, strength=None, th_nan=0.999, th_mode=0.999):
    """Clauses 1-6 for one feature type. strength: association strength used for ordering (defaults to the measure)."""
    probs = []
    mnames = measure_name if isinstance(measure_name, list) else [measure_name]
    allmeas = {}
    for m in mnames:
        allmeas[m] = {}
        for f in feats:
            if not defined_basic(X[f], th_nan, th_mode):
                allmeas[m][f] = float("nan")
            else:
                allmeas[m][f] = target_measure(m, X[f], y, selector_kind)
    # a feature is ranked only if every requested measure is defined for it; the list is ordered by the last measure
    primary = mnames[-1]
    meas = {f: (allmeas[primary][f] if all(allmeas[m][f] == allmeas[m][f] for m in mnames) else float("nan")) for f in feats}
    rank = meas if strength is None else {f: strength(meas[f]) for f in feats}
    ranks = {m: ({f: (allmeas[m][f] if meas[f] == meas[f] else float("nan")) for f in feats} if strength is None else rank) for m in mnames}
    n_best_total = n_best * len(mnames)
    tol = lambda a: TOL * max(1.0, abs(a))
    if len(set(got)) != len(got):
        probs.append(("duplicate", f"duplicate features returned: {got}"))
    if any(f not in feats for f in got):
        probs.append(("unknown_feature", f"features not among the candidates: {[f for f in got if f not in feats]}"))
        return probs, meas
    if len(got) > n_best_total:
        probs.append(("too_many", f"{len(got)} features returned for {len(mnames)} measure(s), n_best={n_best}"))
    und = [f for f in got if meas[f] != meas[f]]
    if und:
        probs.append(("undefined_returned", f"features with an undefined measure returned: {und}"))
    for a, b in zip(got, got[1:]):
        if rank[a] == rank[a] and rank[b] == rank[b] and rank[a] < rank[b] - tol(rank[a]):
            probs.append(("order", f"{a} ({meas[a]:.6g}) is returned before {b} ({meas[b]:.6g}): not in decreasing order of association"))
    for i, a in enumerate(got):
        for b in got[i + 1:]:
            v = pair_assoc(filter_name, X, a, b)
            if v > tc + 1e-12:
                counters["correlated_pairs_seen"] += 1
                # with several measures the selector returns the union of the per-measure selections (each pass filtered on its own):
                # the pair is a defect of a *pass* only if one single pass selects both features
                union_effect = False
                if len(mnames) > 1:
                    same_pass = False
                    for m in mnames:
                        sel_m = simulate_pass(X, feats, ranks[m], filter_name, n_best, tc)
                        if sel_m is not None and a in sel_m and b in sel_m:
                            same_pass = True
                    union_effect = not same_pass
                probs.append(("correlated_pair_returned" + (":__union__" if union_effect else ""), f"{a} and {b} are both returned although their association {v:.6g} > thresh_corr={tc}"
                              + (" (no single per-measure pass selects both: union of the passes)" if union_effect else "")))
    for f in feats:
        if f in got or meas[f] != meas[f]:
            continue
        counters["features_left_out_checked"] += 1
        for m in mnames:  # the feature must have a reason to be left out under every requested measure
            rk = ranks[m]
            better = [h for h in got if rk[h] == rk[h] and rk[h] >= rk[f] - tol(rk[f])]
            if len(better) >= n_best:
                continue
            assoc = [pair_assoc(filter_name, X, f, h) for h in better]
            if any(v > tc - 1e-12 for v in assoc):
                counters["correlated_pairs_seen"] += 1
                continue
            probs.append(("left_out_without_reason:" + f, f"{f} ({m}={rk[f]:.6g}) is left out: only {len(better)} returned features rank at least as high under {m} "
                          f"(n_best={n_best}) and none is associated with it above thresh_corr={tc} (associations {[round(v, 4) for v in assoc]})"))
            break
    return probs, (meas if len(mnames) == 1 else allmeas)


def run_case(tier, seed, i):
    from AutoCarver.selectors import (ClassificationSelector, RegressionSelector, R_measure, cramerv_filter, cramerv_measure, iqr_measure,
                                      pearson_filter, zscore_measure)
    from AutoCarver.selectors.base_selector import apply_measures
    rng = gen.rng_for(ID, tier, seed, i)
    selector_kind = gen.pick(rng, ["classification", "classification", "regression"])
    target_kind = gen.pick(rng, ["binary", "multiclass"]) if selector_kind == "classification" else "continuous"
    X, y, quant, qual, kinds = make_frame(rng, target_kind)
    n_best = int(rng.integers(1, max(2, max(len(quant), len(qual)) + 1)))
    tc = float(gen.pick(rng, [0.3, 0.6, 0.9, 1.0]))
    kw = {"thresh_corr": tc}
    th_nan, th_mode = 0.999, 0.999
    if rng.random() < 0.4:  # user-supplied thresholds on the share of missing values / of the mode
        th_nan = gen.pick(rng, [0.5, 0.25, 0.999])
        th_mode = gen.pick(rng, [0.9, 0.6, 0.999])
        kw.update({"thresh_nan": th_nan, "thresh_mode": th_mode})
    names = {"float": ("kruskal_measure" if selector_kind == "classification" else "distance_measure", "spearman_filter"),
             "str": ("tschuprowt_measure" if selector_kind == "classification" else "kruskal_measure", "tschuprowt_filter")}
    custom = rng.random() < 0.4
    ctor = {}
    if custom:
        if selector_kind == "classification":
            r2 = rng.random()
            if r2 < 0.3:
                # two association measures: a later measure only runs while the previous one is below its threshold
                from AutoCarver.selectors import kruskal_measure
                ctor["quantitative_measures"] = [kruskal_measure, R_measure]
                kw["thresh_kruskal"] = float("inf")
                names["float"] = (["kruskal_measure", "R_measure"], names["float"][1])
            elif r2 < 0.65:
                ctor["quantitative_measures"] = gen.pick(rng, [[R_measure], [zscore_measure, R_measure], [iqr_measure, R_measure]])
                names["float"] = ("R_measure", names["float"][1])
            if rng.random() < 0.5:
                ctor["qualitative_measures"] = [cramerv_measure]
                names["str"] = ("cramerv_measure", names["str"][1])
        if rng.random() < 0.5:
            ctor["quantitative_filters"] = [pearson_filter]
            names["float"] = (names["float"][0], "pearson_filter")
        if rng.random() < 0.5:
            ctor["qualitative_filters"] = [cramerv_filter]
            names["str"] = (names["str"][0], "cramerv_filter")
    counters = {"selections": 0, "blocks_validated": 0, "features_left_out_checked": 0, "library_values_compared": 0, "correlated_pairs_seen": 0}
    tags = [selector_kind, target_kind, "custom" if custom else "default"]
    sample = {"selector": selector_kind, "target": target_kind, "n": len(X), "n_best": n_best, "thresh_corr": tc, "column_kinds": kinds,
              "measures": {k: (v[0] if not isinstance(v[0], list) else "+".join(v[0])) for k, v in names.items()}, "filters": {k: v[1] for k, v in names.items()}, "thresh_nan": th_nan, "thresh_mode": th_mode}
    cls = ClassificationSelector if selector_kind == "classification" else RegressionSelector
    fx, fy = common.frame_fingerprint(X), common.frame_fingerprint(y)
    with contextlib.redirect_stdout(io.StringIO()):
        sel, e = common.guarded(lambda: cls(n_best=n_best, quantitative_features=list(quant), qualitative_features=list(qual), **ctor, **kw))
        if e is None:
            got, e = common.guarded(sel.select, X, y)
    key = common.frame_fingerprint(X)[:12] + f"{selector_kind}{n_best}{tc}{sorted(names.items())}"
    viols = []
    if e is not None:
        v = {"kind": "select_raised", "selector": selector_kind, "msg": f"{cls.__name__}.select raised {common.exc_name(e)}: {str(e)[:200]}", "exc": common.exc_name(e)}
        v["mechanism"] = classify(v, selector_kind, names, X, None)
        return {"status": "violation", "nontrivial": True, "key": key, "tags": tags, "counters": counters, "violations": [v], "sample": sample}
    counters["selections"] += 1
    sample["returned"] = list(got)
    if common.frame_fingerprint(X) != fx or common.frame_fingerprint(y) != fy:
        viols.append({"kind": "inputs_modified", "msg": "select modified X or y"})
    gq = [f for f in got if f in quant]
    gs = [f for f in got if f in qual]
    if [f for f in got if f in quant or f in qual] != gq + gs:
        viols.append({"kind": "type_blocks_interleaved", "msg": f"returned list is not 'quantitative block then qualitative block': {got}"})
    if any(f not in quant and f not in qual for f in got):
        viols.append({"kind": "unknown_feature", "msg": f"unknown features returned: {[f for f in got if f not in quant + qual]}"})
    nontrivial = False
    for dtype, feats, g in (("float", quant, gq), ("str", qual, gs)):
        mname, fname = names[dtype]
        # correlation distance 1-r: the association with the target it stands for is |r|
        strength = (lambda m: abs(1 - m)) if mname == "distance_measure" else None
        probs, meas = validate_block(X, y, feats, g, mname, fname, n_best, tc, selector_kind, counters, strength, th_nan, th_mode)
        counters["blocks_validated"] += 1
        multi = isinstance(mname, list)
        meas1 = meas if not multi else {f: (meas[mname[-1]][f] if all(meas[m][f] == meas[m][f] for m in mname) else float("nan")) for f in feats}
        defined = [f for f in feats if meas1[f] == meas1[f]]
        if len(defined) >= 3 and len(g) < len(defined):
            nontrivial = True
        if multi:
            counters["two_measure_blocks"] = counters.get("two_measure_blocks", 0) + 1
        for kind, msg in probs:
            feature = kind.split(":", 1)[1] if ":" in kind else None
            kind = kind.split(":", 1)[0]
            viols.append({"kind": kind, "feature": feature, "dtype": dtype, "measure": mname if not isinstance(mname, list) else "+".join(mname), "selector": selector_kind, "msg": f"[{dtype}/{mname}/{fname}] {msg}",
                          "has_nan": {f: bool(X[f].isna().any()) for f in feats}})
        # library-reported values equal the recomputation
        with contextlib.redirect_stdout(io.StringIO()):
            lib, e = common.guarded(apply_measures, X, y, sel.measures[dtype], list(feats), **sel.kwargs)
        for one in (mname if multi else [mname]):
          if e is None and one in lib.columns:
            for f in feats:
                lv = lib.loc[f, one]
                try:
                    lv = float(lv)
                except (TypeError, ValueError):
                    lv = float("nan")
                mv = meas[one][f] if multi else meas[f]
                if multi and not defined_basic(X[f], th_nan, th_mode):
                    mv = float("nan")
                counters["library_values_compared"] += 1
                if (lv != lv) != (mv != mv) or (lv == lv and not oracles.close(lv, mv, 1e-7)):
                    viols.append({"kind": "measure_differs_from_recomputation", "dtype": dtype, "measure": one, "selector": selector_kind, "feature": f,
                                  "feature_has_nan": bool(X[f].isna().any()), "lib": lv, "ref": mv,
                                  "msg": f"[{dtype}/{one}] library value {lv!r} for {f} != independent recomputation {mv!r}"})
    for v in viols:
        v["mechanism"] = classify(v, selector_kind, names, X, got)
    if viols:
        sample["frame"] = gen.frame_to_json(X, y, max_rows=120)
    return {"status": "violation" if viols else "ok", "nontrivial": nontrivial, "key": key, "tags": tags, "counters": counters, "violations": viols[:8], "sample": sample}


def classify(v, selector_kind, names, X, got):
    """Known-finding mechanisms (decided from the violating case itself)."""
    if v.get("kind") == "correlated_pair_returned" and v.get("feature") == "__union__" and "+" in str(v.get("measure")):
        return "F27"
    if selector_kind == "regression" and v.get("dtype") == "float" and v.get("measure") == "distance_measure" and \
            v.get("kind") in ("order", "left_out_without_reason", "undefined_returned", "measure_differs_from_recomputation"):
        return "F15"
    # F23: Kruskal-Wallis of y by the categories of x is NaN as soon as x has a missing value (empty group for NaN)
    if selector_kind == "regression" and v.get("dtype") == "str" and v.get("measure") == "kruskal_measure" and \
            v.get("kind") in ("left_out_without_reason", "measure_differs_from_recomputation") and v.get("feature") in X.columns and \
            bool(X[v["feature"]].isna().any()):
        if v.get("kind") == "measure_differs_from_recomputation" and not (v.get("lib") != v.get("lib")):
            return None
        return "F23"
    return None
