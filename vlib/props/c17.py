"""C17 -- manual edits through update_discretizer are applied coherently (histories of valid edits)."""
import json

import numpy as np
import pandas as pd

from .. import common, fitted, gen, interp
from . import c04, c16

ID = "C17"
RULE = ("fitted Binary/Continuous carvers (both output dtypes, both dropna) receive histories of 1..6 valid edits decided from "
        "the fitted state: quantitative -- a group into the next higher one (float leaders); ordinal -- rank-adjacent groups in "
        "either direction; categorical -- any two groups; missing values (numpy.nan) into an existing group when they are their "
        "own group or absent; 'replace' -- a qualitative leader renamed to an unused name. After every edit: the partition of "
        "training rows must be 'before, with the two groups merged' (unchanged for replace), other features untouched, members of "
        "the discarded group get the kept group's label, and the C04 (interpreter = transform, distinct labels), C16 (summary) "
        "and C06 (JSON round trip) monitors must still pass on the edited object. Non-trivial: history with >= 1 applied edit on "
        "a feature with >= 3 groups; distinct by data+config+edit history.")
ASSUMPTIONS = [
    "valid edits follow the documentation ('respect the real number ordering'); edits the GroupedList legitimately rejects are never generated",
    "values are passed as a user would: str leaders, float quantiles, numpy.nan",
]
_BD = "AutoCarver/discretizers/utils/base_discretizers.py"
ANCHORS = [(_BD, "BaseDiscretizer.update_discretizer"), ("AutoCarver/discretizers/utils/grouped_list.py", "GroupedList.group"),
           ("AutoCarver/discretizers/utils/grouped_list.py", "GroupedList.replace_group_leader"), (_BD, "BaseDiscretizer._get_labels_per_values")]
DECIDING_ANCHORS = [(_BD, "BaseDiscretizer.update_discretizer")]
N = {"quick": 300, "thorough": 6000}
REQUIRED_COUNTERS = {"quick": {"edits_applied": 500, "edit:group_quant": 80, "edit:group_qual": 80, "edit:group_nan": 40, "edit:replace": 40},
                     "thorough": {"edits_applied": 10000, "edit:group_quant": 1600, "edit:group_qual": 1600, "edit:group_nan": 800, "edit:replace": 800}}


def n_cases(tier):
    return N[tier]


def budget_s(tier):
    return 900 if tier == "quick" else 7200


def min_nontrivial(tier):
    return 100 if tier == "quick" else 2000


def candidate_edits(case, obj, rng):
    """Valid edits from the fitted state: list of (description, feature, mode, discarded, kept, kind)."""
    out = []
    for f in obj.features:
        snap = interp.snapshot(obj.values_orders[f])
        leaders = [l for l, _ in snap]
        nan_i = interp.nan_group(snap, obj.str_nan)
        nan_alone = nan_i is not None and len(snap[nan_i][1]) == 1
        regular = [l for l in leaders if not (isinstance(l, str) and l == obj.str_nan)]
        quant = fitted.feature_kind(obj, f) == "quant"
        if quant:
            for a, b in zip(regular[:-1], regular[1:]):
                out.append((f"group {f}: {a!r} -> {b!r}", f, "group", float(a), float(b), "group_quant"))
        elif f in case.ordinal:
            for a, b in zip(regular[:-1], regular[1:]):
                out.append((f"group {f}: {a!r} -> {b!r}", f, "group", a, b, "group_qual"))
                out.append((f"group {f}: {b!r} -> {a!r}", f, "group", b, a, "group_qual"))
        else:
            for a in regular:
                for b in regular:
                    if a is not b:
                        out.append((f"group {f}: {a!r} -> {b!r}", f, "group", a, b, "group_qual"))
        if (nan_i is None or nan_alone) and regular:
            k = regular[int(rng.integers(len(regular)))]
            out.append((f"group {f}: nan -> {k!r}", f, "group", np.nan, float(k) if quant else k, "group_nan"))
        if not quant:
            for a in regular:
                if a != obj.str_default:
                    out.append((f"replace {f}: {a!r} => 'renamed_{a}'", f, "replace", a, f"renamed_{a}", "replace"))
    return out


def state(case, obj):
    out = obj.transform(case.X)
    return out, {f: common.partition_of(out[f].tolist()) for f in obj.features}


def merged(partition, rows_a, rows_b):
    a, b = set(rows_a), set(rows_b)
    res = []
    joined = None
    for block in partition:
        s = set(block)
        if s & a or s & b:
            joined = (joined or set()) | s
        else:
            res.append(block)
    if joined:
        res.append(tuple(sorted(joined)))
    return sorted(res)


def run_case(tier, seed, i):
    rng = gen.rng_for(ID, tier, seed, i)
    if rng.random() < 0.5:
        case = gen.single_feature_case(rng, with_dev=False, hostile_names=rng.random() < 0.3, max_n_mod_hi=6)
    else:
        case = gen.multi_feature_case(rng, kind=gen.pick(rng, ["binary", "continuous"]), n=int(gen.pick(rng, [150, 300])), n_feat=int(rng.integers(1, 4)), with_dev=False)
    case.config["max_n_mod"] = max(case.config["max_n_mod"], 4)
    counters = {"edits_applied": 0, "edits_rejected": 0, "json_round_trips": 0}
    tags = [case.kind]
    sample = case.describe()
    obj, e = fitted.fit_object(case, "carver")
    if e is not None:
        return {"status": "skip", "nontrivial": False, "tags": tags + ["fit_" + ("assertion" if common.is_assertion(e) else "internal_error:" + common.exc_name(e))], "counters": counters, "sample": sample}
    if not obj.features:
        return {"status": "skip", "nontrivial": False, "tags": tags + ["no_feature_kept"], "counters": counters, "sample": sample}
    viols = []
    history = []
    nontrivial = False
    r, e = common.guarded(state, case, obj)
    if e is not None:
        return {"status": "skip", "nontrivial": False, "tags": tags + ["transform_raised"], "counters": counters, "sample": sample}
    out0, parts = r
    n_edits = int(rng.integers(1, 7))
    for step in range(n_edits):
        cands = candidate_edits(case, obj, rng)
        if not cands:
            break
        # balance the edit kinds
        kinds = sorted({c[5] for c in cands})
        kind = gen.pick(rng, kinds)
        pool = [c for c in cands if c[5] == kind]
        desc, f, mode, discarded, kept, kind = pool[int(rng.integers(len(pool)))]
        snap = interp.snapshot(obj.values_orders[f])
        if len(snap) >= 3:
            nontrivial = True
        quant = fitted.feature_kind(obj, f) == "quant"
        raw = fitted.raw_column_of(obj, f)
        vals = case.X[raw].tolist()
        groups = interp.groups_of(snap, vals, quant, obj.str_nan)

        def gidx(v):
            if interp.is_nan(v):
                return interp.nan_group(snap, obj.str_nan)
            return next((k for k, (l, _) in enumerate(snap) if common.cell_equal(l, v)), None)
        gi_d, gi_k = gidx(discarded), gidx(kept)
        rows_d = [p for p, g in enumerate(groups) if g is not None and g == gi_d] if gi_d is not None else [p for p, v in enumerate(vals) if interp.is_nan(v) and interp.is_nan(discarded)]
        rows_k = [p for p, g in enumerate(groups) if g == gi_k]
        history.append(desc)
        _, e = common.guarded(obj.update_discretizer, f, mode, discarded, kept)
        if e is not None:
            counters["edits_rejected"] += 1
            viols.append({"kind": "valid_edit_raised", "edit": kind, "msg": f"[{desc}] raised {common.exc_name(e)}: {str(e)[:160]}"})
            break
        counters["edits_applied"] += 1
        counters["edit:" + kind] = counters.get("edit:" + kind, 0) + 1
        r, e = common.guarded(state, case, obj)
        if e is not None:
            viols.append({"kind": "transform_raised_after_edit", "edit": kind, "msg": f"[{desc}] transform(X_train) raised {common.exc_name(e)}: {str(e)[:160]}"})
            break
        out1, parts1 = r
        for g in obj.features:
            want = parts[g]
            if g == f and mode == "group":
                want = merged(parts[g], rows_d, rows_k)
            if parts1.get(g) != want:
                what = "edited feature" if g == f else "another feature"
                viols.append({"kind": "partition_wrong_after_edit", "edit": kind, "msg": f"[{desc}] partition of {what} {g}: {len(parts1.get(g, []))} groups (sizes {sorted(len(b) for b in parts1.get(g, []))}), expected {len(want)} (sizes {sorted(len(b) for b in want)})"})
        if mode == "group" and rows_d and rows_k:
            ld, lk = out1[f].iloc[rows_d[0]], out1[f].iloc[rows_k[0]]
            if not common.cell_equal(ld, lk):
                viols.append({"kind": "discarded_members_not_relabelled", "edit": kind, "msg": f"[{desc}] rows of the discarded group get {ld!r}, rows of the kept group {lk!r}"})
        if kind == "group_nan" and not rows_d:
            # missing values were absent at fit: a frame with a missing value must now get the kept group's label
            fr = fitted.probe_frame(case, obj, f, [np.nan, vals[rows_k[0]] if rows_k else np.nan])
            o2, e2 = common.guarded(obj.transform, fr)
            if e2 is not None:
                viols.append({"kind": "nan_not_accepted_after_edit", "edit": kind, "msg": f"[{desc}] transform of a missing value raised {common.exc_name(e2)}: {str(e2)[:140]}"})
            elif rows_k and not common.cell_equal(o2[f].iloc[0], o2[f].iloc[1]):
                viols.append({"kind": "nan_label_wrong_after_edit", "edit": kind, "msg": f"[{desc}] missing value gets {o2[f].iloc[0]!r}, the kept group {o2[f].iloc[1]!r}"})
        if viols:
            break
        # the other monitors keep agreeing with transform
        c4 = {"rows_compared": 0, "nan_rows": 0}
        for g in obj.features:
            for p in c04.check_feature(case, obj, g, out1, c4)[:1]:
                viols.append({"kind": "labels_disagree_with_transform_after_edit", "edit": kind, "msg": f"[{desc}] {g}: {p}"})
        c6 = {"summaries_checked": 0, "summary_single_feature_calls": 0, "summary_values_probed": 0, "quant_features_with_nan_merged": 0}
        for p in c16.check_summary(case, obj, c6)[:1]:
            viols.append({"kind": "summary_disagrees_after_edit", "edit": kind, "msg": f"[{desc}] {p}"})
        rel, e = common.guarded(fitted.json_reload, obj)
        counters["json_round_trips"] += 1
        if e is not None:
            viols.append({"kind": "json_round_trip_fails_after_edit", "edit": kind, "msg": f"[{desc}] save/load raised {common.exc_name(e)}: {str(e)[:160]}"})
        else:
            o3, e3 = common.guarded(rel[0].transform, case.X)
            if e3 is not None or common.frames_diff(out1, o3):
                viols.append({"kind": "json_round_trip_differs_after_edit", "edit": kind, "msg": f"[{desc}] reloaded object {'raised ' + common.exc_name(e3) if e3 is not None else 'transforms differently: ' + str(common.frames_diff(out1, o3)[:1])}"})
        if viols:
            break
        parts = parts1
    for v in viols:
        v["mechanism"] = None
    sample["edits"] = history
    if viols:
        sample["frame"] = gen.frame_to_json(case.X, case.y)
    return {"status": "violation" if viols else "ok", "nontrivial": nontrivial and counters["edits_applied"] > 0, "key": common.case_hash(case, "|".join(history)),
            "tags": tags, "counters": counters, "violations": viols[:5], "sample": sample}
