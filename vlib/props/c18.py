"""C18 -- ChainedDiscretizer merges rare values only along the supplied hierarchy (bottom-up reference simulation)."""
import numpy as np
import pandas as pd

from .. import common, gen, interp

ID = "C18"
RULE = ("random hierarchies (leaves + 1..3 grouping levels, uneven fan-out, single-child groups, flat first level, leaves and "
        "whole groups never observed, leader listed or not inside its own member list), 1..2 features, Dirichlet leaf "
        "frequencies, NaN, 0/1/2+ unknown values, unknown_handling raise/drop, min_freq in {0.05..0.4}; the fitted content is "
        "compared with a plain bottom-up simulation on the raw counts (a value stays its own modality iff its frequency among "
        "all rows >= min_freq, else it joins its parent group, a parent group rarer than min_freq joins its own parent), "
        "every hierarchy value must remain in values_orders, unknown values must raise AssertionError or join the missing "
        "values, transform must output each value's group leader. Non-trivial: at least one leaf merged and one leaf kept; "
        "distinct by data+hierarchy+config.")
ASSUMPTIONS = [
    "frequencies are relative to all rows (missing and dropped-unknown rows included)",
    "a case with a frequency within 1e-12 of min_freq is ambiguous and skipped",
    "with unknown_handling='drop' the rows of unknown values are output as missing values (ChainedDiscretizer keeps NaN in place)",
]
_L = "AutoCarver/discretizers/utils/qualitative_discretizers.py"
ANCHORS = [(_L, "ChainedDiscretizer.__init__"), (_L, "ChainedDiscretizer._prepare_data"), (_L, "ChainedDiscretizer.fit")]
DECIDING_ANCHORS = [(_L, "ChainedDiscretizer.fit")]
N = {"quick": 1500, "thorough": 40000}
REQUIRED_COUNTERS = {"quick": {"tag:completed": 350, "tag:unknown_raise_ok": 30, "tag:unknown_drop": 40, "leaves_merged": 500, "leaves_kept": 500, "groups_merged_further_up": 50},
                     "thorough": {"tag:completed": 7000, "tag:unknown_raise_ok": 600, "tag:unknown_drop": 800, "leaves_merged": 10000, "leaves_kept": 10000, "groups_merged_further_up": 1000}}


def n_cases(tier):
    return N[tier]


def budget_s(tier):
    return 900 if tier == "quick" else 7200


def min_nontrivial(tier):
    return 150 if tier == "quick" else 3000


def make_hierarchy(rng):
    n_leaves = int(rng.integers(3, 11))
    leaves = [f"l{k}" for k in range(n_leaves)]
    levels = []
    current = list(leaves)
    n_levels = int(rng.integers(1, 4))
    if rng.random() < 0.12:
        # identity first level: every leaf is its own group, named after itself (nothing to group when all are frequent)
        levels.append({l: [l] for l in leaves})
    for lv in range(n_levels):
        if len(current) < 2 and lv > 0:
            break
        flat = lv == 0 and rng.random() < 0.15
        groups = {}
        i = 0
        g = 0
        while i < len(current):
            size = 1 if flat else int(gen.pick(rng, [1, 2, 2, 3, 4]))
            members = current[i:i + size]
            leader = f"g{lv}_{g}"
            mem = list(members)
            if rng.random() < 0.7:
                mem = mem + [leader]  # the documentation's examples list the leader inside its own group
            groups[leader] = mem
            i += size
            g += 1
        levels.append(groups)
        current = list(groups)
    return leaves, levels


def parents_of(levels):
    par = {}
    for groups in levels:
        for leader, mem in groups.items():
            for m in mem:
                if m != leader:
                    par[m] = leader
    return par


def simulate(values, leaves, levels, min_freq, str_nan):
    """Bottom-up reference: returns (final modality per hierarchy value, ambiguous flag, stats)"""
    n = len(values)
    cur = list(values)
    final = {}
    amb = False
    merged_up = 0
    known = set(leaves) | {l for g in levels for l in g}
    where = {v: v for v in known}  # current representative of each hierarchy value
    for groups in levels:
        cnt = {}
        for v in cur:
            cnt[v] = cnt.get(v, 0) + 1
        for leader, mem in groups.items():
            for m in list(mem) + [leader]:
                c = cnt.get(m, 0)
                if abs(c / n - min_freq) <= 1e-12:
                    amb = True
                if c / n < min_freq and m != leader:
                    # m (and everything already merged into m) joins leader
                    for v in known:
                        if where[v] == m:
                            where[v] = leader
                    if m not in leaves:
                        merged_up += 1 if c > 0 else 0
        cur = [where.get(v, v) if v in known else v for v in [x if x not in known else x for x in values]]
        cur = [where[v] if v in known else v for v in values]
    return where, amb, merged_up


def run_case(tier, seed, i):
    from AutoCarver.discretizers.utils.qualitative_discretizers import ChainedDiscretizer
    rng = gen.rng_for(ID, tier, seed, i)
    leaves, levels = make_hierarchy(rng)
    n = int(gen.pick(rng, [60, 100, 200, 400]))
    min_freq = gen.pick(rng, [0.05, 0.1, 0.15, 0.2, 0.3, 0.4])
    observed = [l for l in leaves if rng.random() < 0.85] or leaves[:1]
    p = rng.dirichlet(np.ones(len(observed)) * gen.pick(rng, [0.3, 0.8, 2.0]))
    if rng.random() < 0.2:
        # every leaf observed and frequent: nothing to group at the first level
        observed = list(leaves)
        p = np.ones(len(observed)) / len(observed)
        min_freq = gen.pick(rng, [0.02, 0.05])
    nf = int(rng.integers(1, 3))
    unknown_n = int(gen.pick(rng, [0, 0, 0, 1, 2, 3]))
    handling = gen.pick(rng, ["raise", "drop"])
    nan_share = gen.pick(rng, [0, 0, 0.05, 0.2])
    cols = {}
    for j in range(nf):
        v = np.array([observed[k] for k in rng.choice(len(observed), n, p=p)], dtype=object)
        if j == 0:
            for u in range(unknown_n):
                idx = rng.choice(n, max(1, int(n * gen.pick(rng, [0.01, 0.05]))), replace=False)
                v[idx] = f"unk{u}"
        if nan_share:
            v[rng.random(n) < nan_share] = np.nan
        cols[f"c{j}"] = v
    X = pd.DataFrame(cols)
    X.index = gen.index_for(rng, n, gen.pick(rng, ["range", "offset", "shuffled", "str"]))
    feats = list(cols)
    unknown_n = len({v for v in X["c0"].tolist() if isinstance(v, str) and v.startswith("unk")})  # NaN injection may erase them
    counters = {"leaves_merged": 0, "leaves_kept": 0, "groups_merged_further_up": 0, "values_present_checked": 0, "rows_transformed": 0}
    tags = [f"levels_{len(levels)}", handling]
    sample = {"n": n, "min_freq": min_freq, "leaves": leaves, "levels": levels, "unknown_handling": handling, "unknown_values": unknown_n,
              "nan_share": nan_share, "head": {c: [repr(x) for x in X[c].head(8).tolist()] for c in X.columns}}
    key = common.frame_fingerprint(X)[:12] + repr(levels)[:0] + str(hash(repr(levels)) % 10 ** 8) + handling + str(min_freq)
    viols = []

    def done(status_tags, nontrivial):
        for v in viols:
            v["mechanism"] = None
        if viols:
            sample["frame"] = gen.frame_to_json(X)
        return {"status": "violation" if viols else "ok", "nontrivial": nontrivial, "key": key, "tags": tags + status_tags, "counters": counters, "violations": viols[:5], "sample": sample}

    obj, e = common.guarded(lambda: ChainedDiscretizer(qualitative_features=list(feats), min_freq=min_freq,
                                                       chained_orders=[{k: list(v) for k, v in g.items()} for g in levels],
                                                       unknown_handling=handling, copy=True))
    if e is not None:
        if common.is_assertion(e):
            return done(["constructor_assertion"], False)
        viols.append({"kind": "constructor_internal_error", "msg": f"ChainedDiscretizer(...) raised {common.exc_name(e)}: {str(e)[:200]}"})
        return done([], True)
    before = common.frame_fingerprint(X)
    _, e = common.guarded(obj.fit, X)
    has_unknown = unknown_n > 0
    if e is not None:
        if common.is_assertion(e):
            if has_unknown and handling == "raise":
                return done(["unknown_raise_ok"], True)
            if has_unknown and handling == "drop":
                viols.append({"kind": "unknown_drop_rejected", "msg": f"unknown_handling='drop' with {unknown_n} unknown value(s) raised AssertionError: {str(e)[:160]}"})
                return done([], True)
            return done(["fit_assertion"], False)
        viols.append({"kind": "fit_internal_error", "msg": f"ChainedDiscretizer.fit raised {common.exc_name(e)}: {str(e)[:200]}"})
        return done([], True)
    if has_unknown and handling == "raise" and "c0" not in obj.features:
        return done(["feature_with_unknowns_dropped_as_too_rare"], False)
    if has_unknown and handling == "raise":
        viols.append({"kind": "unknown_not_rejected", "msg": "unknown values present with unknown_handling='raise' but fit completed"})
        return done([], True)
    tags.append("completed")
    if has_unknown:
        tags.append("unknown_drop")
    if common.frame_fingerprint(X) != before:
        viols.append({"kind": "input_modified", "msg": "fit modified X (copy=True)"})
    nontrivial = False
    out, e = common.guarded(obj.transform, X)
    if e is not None:
        viols.append({"kind": "transform_raised", "msg": f"transform(X_train) raised {common.exc_name(e)}: {str(e)[:200]}"})
        return done([], True)
    known = set(leaves) | {l for g in levels for l in g}
    par = parents_of(levels)
    for f in feats:
        if f not in obj.features:
            continue  # dropped (most frequent value rarer than min_freq)
        snap = interp.snapshot(obj.values_orders[f])
        p = interp.wellformed_problem(snap)
        if p:
            viols.append({"kind": "values_orders_malformed", "feature": f, "msg": f"{f}: {p}"})
            continue
        vals = X[f].tolist()
        # every value known to the hierarchy is still present
        for v in sorted(known):
            counters["values_present_checked"] += 1
            if interp.qual_group(snap, v, obj.str_nan) is None:
                viols.append({"kind": "hierarchy_value_lost", "feature": f, "msg": f"{f}: hierarchy value {v!r} is in no group of values_orders"})
                break
        # unknown values joined the missing values
        if has_unknown and f == "c0":
            ng = interp.nan_group(snap, obj.str_nan)
            for u in sorted({v for v in vals if isinstance(v, str) and v.startswith("unk")}):
                g = interp.qual_group(snap, u, obj.str_nan)
                if g is None or g != ng:
                    viols.append({"kind": "unknown_not_merged_with_missing", "feature": f, "msg": f"{f}: unknown value {u!r} is in group {None if g is None else snap[g][0]!r}, not with the missing values"})
        # reference simulation (unknown -> missing)
        sim_vals = [str(obj.str_nan) if (interp.is_nan(v) or v not in known) else v for v in vals]
        where, amb, merged_up = simulate(sim_vals, leaves, levels, min_freq, obj.str_nan)
        if amb:
            tags.append("ambiguous_bound")
            continue
        counters["groups_merged_further_up"] += merged_up
        cnt = {}
        for v in sim_vals:
            cnt[v] = cnt.get(v, 0) + 1
        kept_any = merged_any = False
        for v in leaves:
            g = interp.qual_group(snap, v, obj.str_nan)
            if g is None:
                continue
            leader = snap[g][0]
            want = where[v]
            if v in cnt:
                if want == v:
                    counters["leaves_kept"] += 1
                    kept_any = True
                else:
                    counters["leaves_merged"] += 1
                    merged_any = True
            if not common.cell_equal(leader, want) and v in cnt:
                fr = cnt.get(v, 0) / len(vals)
                # ancestors of v
                anc = []
                a = v
                while a in par:
                    a = par[a]
                    anc.append(a)
                why = "not one of its ancestors " + str(anc) if (leader != v and leader not in anc) else "expected " + repr(want)
                viols.append({"kind": "merge_rule_broken", "feature": f, "msg": f"{f}: leaf {v!r} (frequency {fr:.4f}, min_freq {min_freq}) ends in group {leader!r}: {why}"})
                break
        nontrivial = nontrivial or (kept_any and merged_any)
        # transform outputs each value's group leader (missing values stay missing)
        labels = out[f].tolist()
        counters["rows_transformed"] += len(vals)
        for v, l in zip(vals, labels):
            if interp.is_nan(v) or v not in known:
                if not interp.is_nan(l):
                    viols.append({"kind": "missing_or_unknown_not_output_as_missing", "feature": f, "msg": f"{f}: {v!r} is output as {l!r}"})
                    break
                continue
            g = interp.qual_group(snap, v, obj.str_nan)
            if g is None or not common.cell_equal(snap[g][0], l):
                viols.append({"kind": "transform_not_group_leader", "feature": f, "msg": f"{f}: {v!r} is output as {l!r}, its group leader is {None if g is None else snap[g][0]!r}"})
                break
    sample["kept"] = list(obj.features)
    return done([], nontrivial)
