"""C15 -- feature selection is invariant under re-encodings that keep the information (metamorphic pairs of real selects)."""
import contextlib
import io

import numpy as np
import pandas as pd

from .. import common, gen, interp, oracles
from . import c14

ID = "C15"
NEEDS_GL = False
RULE = ("C14's frames without exact duplicates among the candidates, plus exactly one 'perfect' feature of a type (copy of the "
        "target, affine / exp / cube / rank transform of a continuous target, class label as a category); for each base case the "
        "real select is run on the original and on: one quantitative feature negated, all quantitative features rescaled by a "
        "positive factor, categories renamed, rows permuted, columns and feature lists permuted; returned lists (order included) "
        "are compared, and the perfect feature must be among the returned features of its type. Blocks whose recomputed "
        "measures tie (rel 1e-9) are skipped and counted. Non-trivial: base select returns >= 2 features; distinct by data+config.")
ASSUMPTIONS = [
    "when two candidates' recomputed measures tie within 1e-9 (frequent with a binary target: Kruskal-Wallis H only depends on a rank sum) the order and the n_best cut are an unspecified tie-break: such blocks are not compared, and counted",
    "a block holding a pair of candidates whose mutual association is within 1e-9 of thresh_corr is not compared (the filter's strict comparison is then decided by float rounding)",
    "with a user-supplied outlier measure in front (thresh_iqr / thresh_zscore) a monotone feature may legitimately fail that threshold: the 'perfect feature is returned' clause is not applied to the quantitative block then",
    "the perfect feature is planted alone (no other copy / monotone transform of the target among the candidates) and n_best >= 1",
]
_S = "AutoCarver/selectors/"
ANCHORS = [(_S + "base_selector.py", "BaseSelector._select_features"), (_S + "measures/quantitative_measures.py", "distance_measure"),
           (_S + "measures/quantitative_measures.py", "kruskal_measure"), (_S + "measures/qualitative_measures.py", "tschuprowt_measure"),
           (_S + "filters/quantitative_filters.py", "quantitative_filter"), (_S + "regression_selector.py", "RegressionSelector.__init__")]
DECIDING_ANCHORS = [(_S + "base_selector.py", "BaseSelector._select_features")]
N = {"quick": 300, "thorough": 4000}
REQUIRED_COUNTERS = {"quick": {"pairs_compared": 700, "perfect_features_planted": 90, "tag:negate": 150, "tag:rescale": 150, "tag:rename": 150, "tag:permute_rows": 150, "tag:permute_columns": 150},
                     "thorough": {"pairs_compared": 14000, "perfect_features_planted": 1800, "tag:negate": 3000, "tag:rescale": 3000, "tag:rename": 3000, "tag:permute_rows": 3000, "tag:permute_columns": 3000}}


def n_cases(tier):
    return N[tier]


def budget_s(tier):
    return 900 if tier == "quick" else 7200


def min_nontrivial(tier):
    return 80 if tier == "quick" else 1600


def do_select(cls, X, y, quant, qual, n_best, kw):
    with contextlib.redirect_stdout(io.StringIO()):
        sel = cls(n_best=n_best, quantitative_features=list(quant), qualitative_features=list(qual), **kw)
        return sel.select(X, y)


def run_case(tier, seed, i):
    from AutoCarver.selectors import ClassificationSelector, RegressionSelector
    rng = gen.rng_for(ID, tier, seed, i)
    selector_kind = gen.pick(rng, ["classification", "classification", "regression"])
    target_kind = gen.pick(rng, ["binary", "multiclass"]) if selector_kind == "classification" else "continuous"
    X, y, quant, qual, kinds = c14.make_frame(rng, target_kind, allow_dups=False)
    n = len(X)
    # plant exactly one perfect feature
    perfect = None
    how = gen.pick(rng, ["quant", "qual", "none"])
    if how == "quant":
        if target_kind == "continuous":
            form = gen.pick(rng, ["copy", "affine", "exp", "cube", "rank", "neg_affine"])
            yv = y.values.astype(float)
            v = {"copy": yv.copy(), "affine": 3 * yv + 2, "exp": np.exp(yv / 4), "cube": yv ** 3, "rank": pd.Series(yv).rank().values, "neg_affine": -2 * yv + 1}[form]
        else:
            form = gen.pick(rng, ["copy", "affine"])
            v = y.values.astype(float) if form == "copy" else y.values.astype(float) * 2.5 - 1
        X["xp"] = v
        quant = quant + ["xp"]
        perfect = ("xp", "float", form)
    elif how == "qual":
        if target_kind != "continuous":
            X["qp"] = np.array([f"class_{v}" for v in y.tolist()], dtype=object)
            qual = qual + ["qp"]
            perfect = ("qp", "str", "label_copy")
    n_best = int(rng.integers(1, max(2, max(len(quant), len(qual)))))
    tc = float(gen.pick(rng, [0.6, 0.9, 1.0]))
    kw = {"thresh_corr": tc}
    outlier_filter = False
    if selector_kind == "classification" and rng.random() < 0.3:
        # user-supplied measure list: an outlier measure (with its threshold) in front of the association measure
        from AutoCarver.selectors import iqr_measure, kruskal_measure, zscore_measure
        if rng.random() < 0.6:
            kw["quantitative_measures"] = [iqr_measure, kruskal_measure]
            kw["thresh_iqr"] = gen.pick(rng, [0.02, 0.05, 0.1, 0.2])
        else:
            kw["quantitative_measures"] = [zscore_measure, kruskal_measure]
            kw["thresh_zscore"] = gen.pick(rng, [0.01, 0.02])
        outlier_filter = True
    cls = ClassificationSelector if selector_kind == "classification" else RegressionSelector
    names = {"float": "kruskal_measure" if selector_kind == "classification" else "distance_measure",
             "str": "tschuprowt_measure" if selector_kind == "classification" else "kruskal_measure"}
    counters = {"pairs_compared": 0, "perfect_features_planted": int(perfect is not None), "tie_ambiguous_blocks": 0}
    tags = [selector_kind, target_kind] + (["outlier_measure_first"] if outlier_filter else [])
    sample = {"selector": selector_kind, "target": target_kind, "n": n, "n_best": n_best, "thresh_corr": tc, "column_kinds": kinds, "perfect": perfect}
    key = common.frame_fingerprint(X)[:12] + f"{selector_kind}{n_best}{tc}"
    base, e = common.guarded(do_select, cls, X, y, quant, qual, n_best, kw)
    if e is not None:
        return {"status": "skip", "nontrivial": False, "tags": tags + ["select_raised:" + common.exc_name(e)], "counters": counters, "sample": sample}
    sample["returned"] = list(base)
    viols = []
    # recomputed measures -> tie detection per block
    ties = {}
    on_threshold = {}
    for dtype, feats in (("float", quant), ("str", qual)):
        ms = []
        for f in feats:
            if c14.defined_basic(X[f]):
                m = c14.target_measure(names[dtype], X[f], y, selector_kind)
                if m == m:
                    ms.append(abs(1 - m) if names[dtype] == "distance_measure" else m)
        ms.sort()
        ties[dtype] = any(abs(a - b) <= 1e-9 * max(1.0, abs(a)) for a, b in zip(ms[:-1], ms[1:]))
        if ties[dtype]:
            counters["tie_ambiguous_blocks"] += 1
        # a pair of candidates whose association sits on thresh_corr (e.g. Spearman rho exactly 0.9 with n=80) is decided by
        # the last bit of a float: the block is then not compared at all
        fname = "spearman_filter" if dtype == "float" else "tschuprowt_filter"
        on_threshold[dtype] = tc < 1 and any(abs(c14.pair_assoc(fname, X, a, b) - tc) <= 1e-9 for k, a in enumerate(feats) for b in feats[k + 1:])
        if on_threshold[dtype]:
            counters["threshold_ambiguous_blocks"] = counters.get("threshold_ambiguous_blocks", 0) + 1
    if perfect is not None and not (outlier_filter and perfect[1] == "float"):
        f, dtype, form = perfect
        if f not in base:
            viols.append({"kind": "perfect_feature_not_returned", "dtype": dtype, "selector": selector_kind, "form": form,
                          "msg": f"{f} ({form} of the target) is not among the returned features {base}"})

    def block(lst, feats):
        return [f for f in lst if f in feats]

    def compare(name, other, rename=None):
        counters["pairs_compared"] += 1
        tags.append(name)
        o = [rename.get(f, f) for f in other] if rename else list(other)
        for dtype, feats in (("float", quant), ("str", qual)):
            if on_threshold[dtype] or ties[dtype]:
                continue  # tie at the n_best cut / on the threshold: any tie-break is acceptable
            a, b = block(base, feats), block(o, feats)
            same = a == b
            if not same:
                viols.append({"kind": "selection_changed_by_reencoding", "transformation": name, "dtype": dtype, "selector": selector_kind,
                              "msg": f"[{name}] {dtype} features returned {b} instead of {a}"})

    # (a) negate one quantitative feature
    if quant:
        for f in [quant[k] for k in rng.permutation(len(quant))[:3]]:
            X2 = X.copy()
            X2[f] = -X2[f]
            r, e = common.guarded(do_select, cls, X2, y, quant, qual, n_best, kw)
            if e is None:
                compare("negate", r)
        # (b) rescale all quantitative features by positive powers of two (exact)
        X3 = X.copy()
        for g in quant:
            X3[g] = X3[g] * gen.pick(rng, [2.0, 0.5, 1024.0, 2.0 ** -30, 2.0 ** 30, 1e-9, 1e6])
        r, e = common.guarded(do_select, cls, X3, y, quant, qual, n_best, kw)
        if e is None:
            compare("rescale", r)
    # (c) rename categories
    if qual:
        X4 = X.copy()
        for g in qual:
            vals = sorted({v for v in X4[g].tolist() if not interp.is_nan(v)})
            perm = rng.permutation(len(vals))
            mp = {v: f"r{perm[k]:02d}" for k, v in enumerate(vals)}
            X4[g] = [np.nan if interp.is_nan(v) else mp[v] for v in X4[g].tolist()]
        r, e = common.guarded(do_select, cls, X4, y, quant, qual, n_best, kw)
        if e is None:
            compare("rename", r)
    # (d) permute rows
    perm = rng.permutation(n)
    r, e = common.guarded(do_select, cls, X.iloc[perm].reset_index(drop=True), y.iloc[perm].reset_index(drop=True), quant, qual, n_best, kw)
    if e is None:
        compare("permute_rows", r)
    # (e) permute columns and feature lists
    cols = [list(X.columns)[k] for k in rng.permutation(len(X.columns))]
    q2 = [quant[k] for k in rng.permutation(len(quant))]
    s2 = [qual[k] for k in rng.permutation(len(qual))]
    r, e = common.guarded(do_select, cls, X[cols], y, q2, s2, n_best, kw)
    if e is None:
        compare("permute_columns", r)
    for v in viols:
        v["mechanism"] = classify(v)
    if viols:
        sample["frame"] = gen.frame_to_json(X, y, max_rows=120)
    return {"status": "violation" if viols else "ok", "nontrivial": len(base) >= 2, "key": key, "tags": tags, "counters": counters, "violations": viols[:8], "sample": sample}


def classify(v):
    if v.get("selector") == "regression" and v.get("dtype") == "float":
        # default distance_measure on the quantitative block of RegressionSelector
        return "F15"
    return None
