"""C01 -- carvers pick the most target-associated viable ordered grouping (two-stage search incl. missing values)."""
import itertools

import numpy as np
import pandas as pd

from .. import carve_oracle as co
from .. import gen, interp, monitors, oracles

ID = "C01"
WANT_EVENTS = True
RULE = ("random part: single-feature frames (quantitative / ordinal with a non-alphabetical ranking / categorical) whose "
        "binary or continuous target is built from per-bucket counts so that exact ties of target rate and of the measure "
        "occur; NaN share 0..40 %, optional dev sample (same / bootstrap / modality removed / rank inversion / small), all "
        "carver parameters. Exhaustive part: every assignment of (n0,n1) from a 5-value palette to k ordered buckets of an "
        "ordinal feature x {tschuprowt, cramerv} x max_n_mod in {2,3,4} (k=3 quick; k=3,4 thorough). Each fit is compared with "
        "an independent enumeration of all order-contiguous groupings (measure + 3-valued viability recomputed from raw rows). "
        "Non-trivial: >= 3 base modalities and >= 2 definitely viable candidates; distinct by hash of data+configuration.")
ASSUMPTIONS = [
    "chi2 is scipy.stats.chi2_contingency's default (Yates correction on 2x2 tables only); V = sqrt(chi2/n), T = V/(g-1)^(1/4)",
    "first search: frequencies relative to the non-missing rows; missing-value search: relative to all rows",
    "a missing-value group kept alone is the last group of the order",
    "'distinct' rates: numpy.isclose defaults; close-but-not-identical rates, frequencies exactly on the bound and rank ties are ambiguous and never decide",
    "a base modality absent from the dev sample counts as zero rows there",
    "base modalities are those of a separately fitted Discretizer with the same min_freq / orders (their correctness is C09/C03's business)",
    "measures compared with relative tolerance 1e-9; any grouping among exact ties is accepted",
    "missing-value search space: compositions of the first search's groups into 2..max_n_mod super-groups x NaN in each super-group, plus NaN alone when fewer than max_n_mod groups",
]
_BC = "AutoCarver/carvers/base_carver.py"
ANCHORS = [(_BC, "consecutive_combinations"), (_BC, "nan_combinations"), (_BC, "combinations_at_index"), (_BC, "BaseCarver._get_best_combination"),
           (_BC, "BaseCarver._get_best_association"), (_BC, "BaseCarver._test_viability"), (_BC, "order_apply_combination"), (_BC, "xagg_apply_order"),
           ("AutoCarver/carvers/binary_carver.py", "BinaryCarver._grouper"), ("AutoCarver/carvers/binary_carver.py", "BinaryCarver._association_measure"),
           ("AutoCarver/carvers/continuous_carver.py", "ContinuousCarver._grouper"), ("AutoCarver/carvers/continuous_carver.py", "ContinuousCarver._association_measure")]
DECIDING_ANCHORS = [(_BC, "nan_combinations"), (_BC, "BaseCarver._test_viability")]
REQUIRED_WRAPS = ["_get_best_association", "_test_viability"]
EXHAUSTIVE = {"quick": True, "thorough": True}
EXHAUSTIVE_NOTE = "exhaustive only for the count-palette grids (k=3 quick; k=3,4 thorough; plus k=3 with a missing-value bucket), random elsewhere"
PALETTE = [(8, 2), (6, 4), (4, 6), (16, 4), (5, 5)]
N_RANDOM = {"quick": 700, "thorough": 20000}
REQUIRED_COUNTERS = {"quick": {"tag:two_stage": 30, "tag:with_dev": 50, "tag:exact_rate_tie": 20, "tag:dropped_ok": 5},
                     "thorough": {"tag:two_stage": 300, "tag:with_dev": 500, "tag:exact_rate_tie": 200, "tag:dropped_ok": 50}}


NAN_PALETTE = [(6, 4), (8, 2), (5, 5)]


def grid(tier):
    out = []
    for k in ([3] if tier == "quick" else [3, 4]):
        for assign in itertools.product(range(len(PALETTE)), repeat=k):
            for sort_by in ("tschuprowt", "cramerv"):
                for mnm in (2, 3, 4):
                    out.append((k, assign, sort_by, mnm, None))
    # the same grid with a missing-value bucket (two-stage search with exact ties); k=3 only
    for assign in itertools.product(range(len(PALETTE)), repeat=3):
        for nan_a in range(len(NAN_PALETTE) if tier != "quick" else 2):
            for sort_by in ("tschuprowt", "cramerv"):
                for mnm in ((3, 4) if tier == "quick" else (2, 3, 4)):
                    out.append((3, assign, sort_by, mnm, nan_a))
    return out


_GRID = {}


def n_cases(tier):
    if tier not in _GRID:
        _GRID[tier] = grid(tier)
    return len(_GRID[tier]) + N_RANDOM[tier]


def budget_s(tier):
    return 900 if tier == "quick" else 7200


def min_nontrivial(tier):
    return 150 if tier == "quick" else 3000


def grid_case(spec):
    k, assign, sort_by, mnm, nan_a = spec
    names = ["m", "c", "x", "a", "k"][:k]  # ranking deliberately not alphabetical
    vals, ys = [], []
    for name, a in zip(names, assign):
        n0, n1 = PALETTE[a]
        vals += [name] * (n0 + n1)
        ys += [0] * n0 + [1] * n1
    if nan_a is not None:
        n0, n1 = NAN_PALETTE[nan_a]
        vals += [np.nan] * (n0 + n1)
        ys += [0] * n0 + [1] * n1
    c = gen.Case()
    c.kind = "binary"
    c.X = pd.DataFrame({"f": np.array(vals, dtype=object)})
    c.y = pd.Series(ys)
    c.ordinal = ["f"]
    c.values_orders = {"f": list(names)}
    c.config = {"min_freq": 0.05, "max_n_mod": mnm, "dropna": True, "output_dtype": "float", "copy": True, "min_freq_mod": None, "sort_by": sort_by}
    c.meta = {"grid": {"k": k, "counts": [PALETTE[a] for a in assign], "nan_counts": None if nan_a is None else NAN_PALETTE[nan_a]}, "ftype": "ord"}
    return c


def random_case(rng):
    r = rng.random()
    kw = {}
    if r < 0.08:
        kw["quant_flavour"] = "jitter"
        kw["ftype"] = "quant"
    c = gen.single_feature_case(rng, exact=rng.random() < 0.85, max_n_mod_hi=6, **kw)
    return c


def check_feature(case, carver, f, info_out):
    """Returns list of violations for feature f of a fitted carver (boundary oracle)."""
    from AutoCarver.discretizers import Discretizer  # noqa
    cfg = case.config
    ftype = case.ftype(f)
    mfm = cfg["min_freq_mod"] if cfg.get("min_freq_mod") is not None else cfg["min_freq"] / 2
    # base modalities from a separately fitted real Discretizer (as the property prescribes)
    sub = gen.Case()
    sub.X, sub.y, sub.config = case.X[[f]].copy(), case.y.copy(), cfg
    sub.quant = [f] if ftype == "quant" else []
    sub.qual = [f] if ftype == "cat" else []
    sub.ordinal = [f] if ftype == "ord" else []
    sub.values_orders = {f: list(case.values_orders[f])} if f in case.values_orders else {}
    try:
        disc = gen.make_discretizer(sub)
        disc.fit(sub.X, sub.y)
    except Exception as e:  # noqa
        info_out["tags"].append("base_fit_raised")
        return [], False
    kept = f in carver.features
    if f not in disc.features:
        info_out["tags"].append("base_dropped")
        if kept:
            return [{"kind": "kept_without_base", "msg": f"feature {f} kept although the base Discretizer drops it"}], False
        return [], False
    base_snap = interp.snapshot(disc.values_orders[f])
    fo = co.FeatureOracle(case.kind, cfg["sort_by"], mfm, cfg["max_n_mod"], cfg["dropna"], base_snap, ftype == "quant",
                          case.X[f].tolist(), case.y.tolist(),
                          None if case.X_dev is None else case.X_dev[f].tolist(), None if case.y_dev is None else case.y_dev.tolist())
    if fo.unmapped_train or fo.unmapped_dev:
        info_out["tags"].append("base_unmapped_rows")
        return [], False
    if len(fo.nn) > 13:
        info_out["tags"].append("too_many_buckets_for_oracle")
        return [], False
    acc, drop_ok, info = fo.acceptable()
    info_out["info"] = info
    info_out["counters"]["oracle_candidates"] += info.get("n_candidates_stage1", 0) + info.get("n_candidates_stage2", 0)
    info_out["counters"]["ambiguous_candidates"] += info.get("n_ambiguous_stage1", 0)
    nontrivial = len(fo.nn) >= 3 and info["n_viable_stage1"] >= 2
    if info["two_stage"]:
        info_out["tags"].append("two_stage")
    if info["measure_tie_at_top"]:
        info_out["tags"].append("exact_measure_tie")
    rates = fo.train1.rates([[b] for b in fo.nn])
    if any(a == b for a, b in zip(rates[:-1], rates[1:])):
        info_out["tags"].append("exact_rate_tie")
    if fo.dev1 is not None:
        info_out["tags"].append("with_dev")
        # dev sample decisive: the unconstrained (train-only) optimum is not acceptable with the dev sample
        absent = [b for b in fo.nn if fo.dev1.count[b] == 0]
        if absent:
            info_out["tags"].append("modality_absent_from_dev")
    detail = {"base_modalities": [repr(l) for l, _ in base_snap], "n_base": len(fo.nn), "info": info}
    if not kept:
        if drop_ok:
            info_out["tags"].append("dropped_ok")
            return [], nontrivial
        best = sorted(acc)[:2]
        return [{"kind": "dropped_but_viable", "msg": f"feature dropped although a viable grouping exists, e.g. {best[:1]}", "detail": detail}], nontrivial
    fitted_snap = interp.snapshot(carver.values_orders[f])
    part, prob, mp = fo.fitted_partition(fitted_snap, case.X[f].tolist())
    detail["fitted"] = [(repr(l), [repr(m) for m in mem][:8]) for l, mem in fitted_snap]
    if prob:
        return [{"kind": "split_or_unmapped", "msg": prob, "detail": detail}], nontrivial
    observed = set(mp)
    acc_r = {fo.restrict(a, observed) for a in acc}
    detail["fitted_partition"] = part
    if part in acc_r:
        info_out["tags"].append("kept_ok")
        return [], nontrivial
    # diagnose
    if not acc:
        return [{"kind": "kept_but_no_viable", "msg": f"feature kept with grouping {part} although no viable candidate exists", "detail": detail}], nontrivial
    # is the fitted partition contiguous / a candidate at all?
    allc = {}
    for m, v, g in fo.c1:
        gg = [list(x) for x in g] + ([[fo.nan_idx]] if (fo.nan_idx is not None and not info["two_stage"]) else [])
        allc[fo.restrict(co.canon(gg), observed)] = (m, v)
    kind = "suboptimal_or_nonviable"
    extra = ""
    if not info["two_stage"]:
        if part not in allc:
            kind = "not_a_contiguous_candidate"
        else:
            m, v = allc[part]
            extra = f" (its measure {m!r}, viable={v}; best acceptable measure {info.get('best_measure')!r})"
    detail["acceptable_examples"] = sorted(acc_r)[:3]
    return [{"kind": kind, "msg": f"fitted grouping {part} is not an optimal viable grouping{extra}; acceptable e.g. {sorted(acc_r)[:2]}", "detail": detail}], nontrivial


def trace_check(case, counters):
    """Offline checker over the recorded search events (diagnostic/evidence; the verdict is taken at the boundary)."""
    for ev in monitors.EVENTS:
        if ev["ev"] == "get_best_association":
            counters["trace_candidates_enumerated"] += ev["n_comb"]
            if not ev["dropna"] and ev.get("combinations"):
                k = len([m for grp in ev["combinations"][0] for m in grp]) if ev["combinations"] else 0
                expect = oracles.n_compositions(k, case.config["max_n_mod"])
                counters["trace_stage1_searches"] += 1
                if expect == ev["n_comb"] and len({tuple(tuple(g) for g in c) for c in ev["combinations"]}) == expect:
                    counters["trace_stage1_enumeration_complete"] += 1
            elif ev["dropna"]:
                counters["trace_nan_searches"] += 1
        elif ev["ev"] == "test_viability":
            ms = ev.get("measures_sorted")
            if ms is not None:
                counters["trace_viability_scans"] += 1
                clean = [m for m in ms if m == m]
                if all(a >= b for a, b in zip(clean[:-1], clean[1:])):
                    counters["trace_scans_in_nonincreasing_order"] += 1
                if ev.get("winner_rank") is not None:
                    counters["trace_candidates_tested_before_winner"] += ev["winner_rank"]


def classify(v, case):
    return None


def run_case(tier, seed, i):
    g = _GRID.get(tier) or grid(tier)
    _GRID[tier] = g
    if i < len(g):
        case = grid_case(g[i])
        is_grid = True
    else:
        rng = gen.rng_for(ID, tier, seed, i)
        case = random_case(rng)
        is_grid = False
    counters = {k: 0 for k in ("oracle_candidates", "ambiguous_candidates", "trace_candidates_enumerated", "trace_stage1_searches",
                               "trace_stage1_enumeration_complete", "trace_nan_searches", "trace_viability_scans",
                               "trace_scans_in_nonincreasing_order", "trace_candidates_tested_before_winner", "fits")}
    tags = ["grid" if is_grid else "random", case.kind, case.meta.get("ftype", "?")]
    sample = case.describe()
    try:
        carver = gen.make_carver(case)
        carver.fit(case.X, case.y, **gen.fit_kwargs(case))
        counters["fits"] += 1
    except AssertionError as e:
        return {"status": "skip", "nontrivial": False, "tags": tags + ["fit_assertion"], "counters": counters, "sample": sample}
    except Exception as e:  # internal errors are C08's business
        return {"status": "skip", "nontrivial": False, "tags": tags + ["fit_internal_error:" + type(e).__name__], "counters": counters, "sample": sample}
    trace_check(case, counters)
    viols = []
    nontrivial = False
    info_out = {"tags": tags, "counters": counters, "info": None}
    for f in case.features:
        v, nt = check_feature(case, carver, f, info_out)
        for x in v:
            x["feature"] = f
            x["mechanism"] = classify(x, case)
        viols += v
        nontrivial = nontrivial or nt
    sample["fitted_features"] = list(carver.features)
    sample["oracle"] = info_out["info"]
    if viols:
        sample["frame"] = gen.frame_to_json(case.X, case.y)
        sample["dev"] = gen.frame_to_json(case.X_dev, case.y_dev) if case.X_dev is not None else None
    key = _hash(case)
    return {"status": "violation" if viols else "ok", "nontrivial": nontrivial, "key": key, "tags": info_out["tags"], "counters": counters,
            "violations": viols, "sample": sample}


def _hash(case):
    import hashlib
    h = hashlib.sha1()
    h.update(repr(sorted(case.config.items(), key=str)).encode())
    h.update(pd.util.hash_pandas_object(case.X.astype(str), index=False).values.tobytes())
    h.update(pd.util.hash_pandas_object(case.y.astype(str), index=False).values.tobytes())
    if case.X_dev is not None:
        h.update(pd.util.hash_pandas_object(case.X_dev.astype(str), index=False).values.tobytes())
    return h.hexdigest()[:16]
