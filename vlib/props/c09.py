"""C09 -- base discretization honours min_freq and keeps its granularity (recomputed from raw data, no library call)."""
from fractions import Fraction
import math

import numpy as np
import pandas as pd

from .. import common, fitted, gen, interp

ID = "C09"
RULE = ("Discretizer / QuantitativeDiscretizer / QualitativeDiscretizer / ContinuousDiscretizer fitted on continuous, discrete, "
        "spiked, tied, zipf columns with and without NaN, ordinal rankings with never-observed values, categories with "
        "Dirichlet frequencies, frequencies placed exactly at min_freq and at 1/round(1/min_freq), min_freq over {0.02..0.5}; "
        "bucket counts are recomputed from the raw column with an independent interpreter of values_orders and compared with "
        "the bounds of the statement. Non-trivial: a kept feature with >= 2 non-missing buckets; distinct by data+config+class.")
ASSUMPTIONS = [
    "frequencies are relative to all training rows (missing values included in the denominator), as the library documents",
    "bounds are evaluated in floats and exactly; a bucket/value sitting exactly on a bound where the two disagree is ambiguous",
    "numeric categories are identified with their string form",
    "'unless a single bucket remains' also covers features with a single non-missing bucket",
]
_Q = "AutoCarver/discretizers/utils/quantitative_discretizers.py"
_L = "AutoCarver/discretizers/utils/qualitative_discretizers.py"
ANCHORS = [(_Q, "np_find_quantiles"), (_Q, "find_quantiles"), (_L, "find_common_modalities"), (_L, "find_closest_modality"),
           (_L, "CategoricalDiscretizer.fit"), (_L, "OrdinalDiscretizer.fit"), ("AutoCarver/discretizers/discretizers.py", "QuantitativeDiscretizer.fit"),
           ("AutoCarver/discretizers/discretizers.py", "min_value_counts")]
DECIDING_ANCHORS = [(_Q, "np_find_quantiles"), (_L, "find_common_modalities"), (_L, "CategoricalDiscretizer.fit")]
N = {"quick": 4000, "thorough": 120000}
REQUIRED_COUNTERS = {"quick": {"quant_features": 900, "ordinal_features": 200, "categorical_features": 200, "continuous_discretizer_features": 400,
                               "frequent_values_checked": 500, "values_exactly_on_min_freq": 20},
                     "thorough": {"quant_features": 20000, "ordinal_features": 5000, "categorical_features": 5000, "continuous_discretizer_features": 10000,
                                  "frequent_values_checked": 12000, "values_exactly_on_min_freq": 500}}
MIN_FREQS = [0.02, 0.05, 0.07, 0.1, 0.12, 0.15, 0.2, 0.25, 0.3, 0.4, 0.5]


def n_cases(tier):
    return N[tier]


def budget_s(tier):
    return 900 if tier == "quick" else 7200


def min_nontrivial(tier):
    return 600 if tier == "quick" else 12000


def ge3(count, n, bound):
    """3-valued count/n >= bound"""
    fl = count / n >= bound
    ex = Fraction(int(count), int(n)) >= Fraction(repr(float(bound)))  # the decimal value the user wrote
    if fl != ex:
        return None
    return fl


def exact_freq_column(rng, n, mf):
    """values whose frequencies sit exactly at min_freq, just below, at 1/round(1/min_freq), plus a continuous rest"""
    q = round(1 / mf)
    x = rng.normal(50, 10, n)
    pos = rng.permutation(n)
    targets = [mf, 1 / q, mf - 1 / n, mf / 2, 0.9 / q]
    rng.shuffle(targets)
    at = 0
    for k, t in enumerate(targets[: int(rng.integers(1, 4))]):
        c = int(round(t * n))
        if c <= 0 or at + c > n * 0.8:
            continue
        x[pos[at:at + c]] = float(k) * 7 - 10
        at += c
    return x


def make_case(rng):
    c = gen.Case()
    n = int(gen.pick(rng, [50, 100, 200, 400, 1000, 2000]))
    mf = gen.pick(rng, MIN_FREQS)
    cols = {}
    nf = int(rng.integers(1, 4))
    for j in range(nf):
        t = gen.pick(rng, ["quant", "quant", "quant", "cat", "ord"])
        name = f"{t[0]}{j}"
        if t == "quant":
            if rng.random() < 0.3:
                x = exact_freq_column(rng, n, mf)
                if rng.random() < 0.4:
                    x[rng.random(n) < gen.pick(rng, [0.05, 0.2])] = np.nan
                cols[name] = x
                c.meta.setdefault("flavours", {})[name] = "exact_freq"
            else:
                x, meta = gen.quant_column(rng, n)
                cols[name] = gen.cast_quant(x, meta["dtype"])
                c.meta.setdefault("flavours", {})[name] = meta["flavour"]
            c.quant.append(name)
        else:
            if rng.random() < 0.3:  # frequencies exactly on the bound
                k = int(rng.integers(3, 8))
                cnt = [int(round(mf * n)), max(1, int(round(mf * n)) - 1), int(round(mf * n)) + 1][: k - 1]
                rest = n - sum(cnt)
                sizes = cnt + [max(1, rest)]
                vals, codes, names, meta = gen.qual_column(rng, n, k=len(sizes), sizes=sizes, nan_share=gen.pick(rng, [0, 0, 0.1]),
                                                           style=gen.pick(rng, ["letters", "permuted", "numeric_int", "numeric_float"]))
                vals = vals[:n] if len(vals) >= n else np.concatenate([vals, np.array([names[-1]] * (n - len(vals)), dtype=object)])
            else:
                vals, codes, names, meta = gen.qual_column(rng, n)
            c.meta.setdefault("flavours", {})[name] = meta["style"]
            if t == "ord":
                vals = np.array([np.nan if interp.is_nan(v) else interp.str_form(v) for v in vals], dtype=object)
                ranking = [interp.str_form(v) for v in names]
                ranking = list(dict.fromkeys(ranking))
                for e in range(int(rng.integers(0, 3))):
                    ranking.insert(int(rng.integers(0, len(ranking) + 1)), f"unseen{e}")
                c.values_orders[name] = ranking
                c.ordinal.append(name)
            else:
                c.qual.append(name)
            cols[name] = vals
    c.X = pd.DataFrame(cols)
    c.kind = gen.pick(rng, ["binary", "continuous"])
    if c.kind == "binary":
        y = (rng.random(n) < 0.3).astype(int)
        y[0], y[1] = 0, 1
    else:
        y = rng.normal(0, 1, n)
    c.y = pd.Series(y)
    c.config = {"min_freq": mf}
    return c


def check_quant(obj, f, vals, n, mf, counters, continuous_only):
    probs = []
    snap = interp.snapshot(obj.values_orders[f])
    g = interp.groups_of(snap, vals, True, obj.str_nan)
    if any(x is None for x in g):
        return ["a training value belongs to no bucket"]
    nan_i = interp.nan_group(snap, obj.str_nan)
    counts = [sum(1 for x in g if x == i) for i in range(len(snap))]
    nn = [i for i in range(len(snap)) if i != nan_i]
    if nan_i is not None and [m for m in snap[nan_i][1] if not (isinstance(m, str) and m == obj.str_nan)]:
        probs.append(f"missing values merged with {snap[nan_i][0]!r}")
    if nan_i is not None and not isinstance(snap[nan_i][0], str):
        probs.append(f"missing values merged into bucket {snap[nan_i][0]!r}")
    if continuous_only:
        counters["continuous_discretizer_features"] += 1
        leaders = [l for l, _ in snap if not isinstance(l, str)]
        fin = [float(l) for l in leaders if math.isfinite(float(l))]
        observed = {float(v) for v in vals if not interp.is_nan(v)}
        if not leaders or not (math.isinf(float(leaders[-1])) and float(leaders[-1]) > 0):
            probs.append(f"last boundary is {leaders[-1] if leaders else None!r}, not +inf")
        if any(not a < b for a, b in zip(fin[:-1], fin[1:])):
            probs.append(f"boundaries not strictly increasing: {fin[:8]}")
        bad = [b for b in fin if b not in observed]
        if bad:
            probs.append(f"boundary {bad[0]!r} is not an observed training value")
        vc = {}
        for v in vals:
            if not interp.is_nan(v):
                vc[float(v)] = vc.get(float(v), 0) + 1
        frequent = set()
        for v, cnt in vc.items():
            r = ge3(cnt, n, mf)
            if cnt == round(mf * n) and abs(cnt / n - mf) < 1e-9:
                counters["values_exactly_on_min_freq"] += 1
            if r is None:
                frequent.add(v)  # ambiguous: may be a boundary or not
                continue
            if r:
                counters["frequent_values_checked"] += 1
                frequent.add(v)
                if v not in set(fin):
                    probs.append(f"value {v!r} has frequency {cnt}/{n} >= min_freq={mf} but is not a boundary "
                                 f"(over-representation threshold used: 1/round(1/min_freq)={1 / round(1 / mf):.4f})")
        # buckets free of frequent values hold at most 2.5*min_freq
        prev = -math.inf
        for i in nn:
            hi = float(snap[i][0])
            inside = [v for v in vc if prev < v <= hi]
            if not any(v in frequent for v in inside):
                if counts[i] / n > 2.5 * mf + 1e-12:
                    probs.append(f"bucket ({prev!r}, {hi!r}] holds {counts[i]}/{n} = {counts[i] / n:.4f} > 2.5*min_freq without any over-represented value")
            prev = hi
    else:
        counters["quant_features"] += 1
        if len(nn) > 1:
            for i in nn:
                r = ge3(counts[i], n, mf / 2)
                if r is False:
                    probs.append(f"bucket {snap[i][0]!r} holds {counts[i]}/{n} = {counts[i] / n:.4f} < min_freq/2 = {mf / 2}")
                elif r is None:
                    counters["ambiguous_bounds"] += 1
    return probs


def check_ordinal(obj, f, vals, n, mf, counters):
    counters["ordinal_features"] += 1
    probs = []
    snap = interp.snapshot(obj.values_orders[f])
    g = interp.groups_of(snap, vals, False, obj.str_nan)
    if any(x is None for x in g):
        return ["a training value belongs to no bucket"]
    nan_i = interp.nan_group(snap, obj.str_nan)
    if nan_i is not None and [m for m in snap[nan_i][1] if not (isinstance(m, str) and m == obj.str_nan)]:
        probs.append(f"missing values merged with {[m for m in snap[nan_i][1]][:4]}")
    nn = [i for i in range(len(snap)) if i != nan_i]
    if len(nn) > 1:
        for i in nn:
            cnt = sum(1 for x in g if x == i)
            r = ge3(cnt, n, mf)
            if r is False:
                probs.append(f"ordinal bucket {snap[i][0]!r} holds {cnt}/{n} = {cnt / n:.4f} < min_freq = {mf}")
            elif r is None:
                counters["ambiguous_bounds"] += 1
    return probs


def check_categorical(obj, f, vals, n, mf, counters):
    counters["categorical_features"] += 1
    probs = []
    snap = interp.snapshot(obj.values_orders[f])
    nan_i = interp.nan_group(snap, obj.str_nan)
    if nan_i is not None and [m for m in snap[nan_i][1] if not (isinstance(m, str) and m == obj.str_nan)]:
        probs.append(f"missing values merged with {[m for m in snap[nan_i][1]][:4]}")
    vc = {}
    for v in vals:
        if not interp.is_nan(v):
            vc[interp.str_form(v)] = vc.get(interp.str_form(v), 0) + 1
    d_i = next((i for i, (_, mem) in enumerate(snap) if any(isinstance(m, str) and m == obj.str_default for m in mem)), None)
    for v, cnt in vc.items():
        gi = interp.qual_group(snap, v, obj.str_nan)
        if gi is None:
            probs.append(f"training value {v!r} belongs to no bucket")
            continue
        in_default = gi == d_i
        r = ge3(cnt, n, mf)
        if cnt == round(mf * n) and abs(cnt / n - mf) < 1e-9:
            counters["values_exactly_on_min_freq"] += 1
        if r is None:
            counters["ambiguous_bounds"] += 1
            continue
        if r and in_default:
            probs.append(f"category {v!r} with frequency {cnt}/{n} >= min_freq={mf} is in the default group")
        if (not r) and not in_default:
            probs.append(f"category {v!r} with frequency {cnt}/{n} < min_freq={mf} is its own modality (group {snap[gi][0]!r})")
        if not in_default and len([m for m in snap[gi][1] if isinstance(m, str)]) > 1:
            others = [m for m in snap[gi][1] if isinstance(m, str) and m != v]
            if any(o in vc for o in others):
                probs.append(f"categories {v!r} and {others} share a base modality")
    return probs


def run_case(tier, seed, i):
    from AutoCarver.discretizers.utils.quantitative_discretizers import ContinuousDiscretizer
    rng = gen.rng_for(ID, tier, seed, i)
    case = make_case(rng)
    mf = case.config["min_freq"]
    kinds = ["Discretizer"]
    if case.quant:
        kinds += ["QuantitativeDiscretizer", "ContinuousDiscretizer", "ContinuousDiscretizer"]
    if case.qual or case.ordinal:
        kinds += ["QualitativeDiscretizer"]
    which = gen.pick(rng, kinds)
    counters = {"quant_features": 0, "ordinal_features": 0, "categorical_features": 0, "continuous_discretizer_features": 0,
                "frequent_values_checked": 0, "values_exactly_on_min_freq": 0, "ambiguous_bounds": 0}
    tags = [which, f"min_freq_{mf}"]
    sample = case.describe()
    sample["estimator"] = which
    n_jobs = 2 if (rng.random() < 0.08 and len(case.X) <= 400) else 1  # the statement holds whatever the number of worker processes
    if n_jobs > 1:
        tags.append("n_jobs_2")
        counters["fits_with_n_jobs_2"] = 1
    if which == "ContinuousDiscretizer":
        obj, e = common.guarded(lambda: ContinuousDiscretizer(quantitative_features=list(case.quant), min_freq=mf, copy=True, n_jobs=n_jobs))
    else:
        obj, e = common.guarded(gen.make_discretizer, case, which, n_jobs)
    if e is None:
        _, e = common.guarded(obj.fit, case.X, case.y)
    if e is not None:
        return {"status": "skip", "nontrivial": False, "tags": tags + ["fit_" + ("assertion" if common.is_assertion(e) else "internal_error:" + common.exc_name(e))], "counters": counters, "sample": sample}
    n = len(case.X)
    viols = []
    nontrivial = False
    for f in obj.features:
        vals = case.X[f].tolist()
        if f in case.quant:
            probs = check_quant(obj, f, vals, n, mf, counters, which == "ContinuousDiscretizer")
        elif f in case.ordinal:
            probs = check_ordinal(obj, f, vals, n, mf, counters)
        else:
            probs = check_categorical(obj, f, vals, n, mf, counters)
        if len([l for l in obj.values_orders[f] if not (isinstance(l, str) and l == obj.str_nan)]) >= 2:
            nontrivial = True
        for p in probs[:2]:
            v = {"kind": "min_freq_rule_broken", "feature": f, "msg": f"[{which}, min_freq={mf}] {f}: {p}", "flavours": case.meta.get("flavours")}
            v["mechanism"] = classify(v, mf)
            viols.append(v)
    sample["kept"] = list(obj.features)
    if viols:
        sample["frame"] = gen.frame_to_json(case.X, case.y)
    return {"status": "violation" if viols else "ok", "nontrivial": nontrivial, "key": common.case_hash(case, which), "tags": tags, "counters": counters,
            "violations": viols[:5], "sample": sample}


def classify(v, mf):
    return None
