"""C19 -- malformed inputs are refused up-front with AssertionError; a rejected call leaves a fitted object unchanged."""
import json

import numpy as np
import pandas as pd

from .. import common, gen, interp

ID = "C19"
CLASSES = ["BinaryCarver", "MulticlassCarver", "ContinuousCarver", "Discretizer", "QuantitativeDiscretizer", "QualitativeDiscretizer",
           "OrdinalDiscretizer", "CategoricalDiscretizer", "ContinuousDiscretizer", "ChainedDiscretizer"]
DEFECTS = ["nan_in_y", "wrong_classes", "y_index_same_len", "y_index_shorter", "y_index_longer", "X_not_dataframe", "y_not_series",
           "missing_column", "missing_column_dev", "feature_both_types", "string_in_quantitative", "value_absent_from_ranking",
           "unsupported_sort_by", "second_fit"]
STATES = ["fresh", "fitted"]
RULE = ("exhaustive grid: every malformed-input class x every estimator class that accepts the argument x {fresh object, "
        "already fitted object}; for each cell several random otherwise-valid samples with the defect injected at a random "
        "position. Fresh objects: the malformed fit (or constructor) must raise AssertionError. Fitted objects: the malformed "
        "call (second fit with the malformed sample, or transform with the malformed frame where transform takes that "
        "argument) must raise AssertionError and values_orders, to_json() and transform(X_train) must be identical before and "
        "after. Non-trivial: every cell; distinct by class+defect+state+sample.")
ASSUMPTIONS = [
    "a class 'accepts' a defect when it takes the corresponding argument (e.g. wrong number of classes only concerns carvers, rankings only classes with ordinal features, sort_by only Binary/Multiclass carvers)",
    "on a fitted object the malformed call is a second fit with the malformed sample, plus transform for the defects transform can see (X type, missing column, y checks, string in a quantitative column)",
    "the snapshot compares values_orders (typed), json.dumps(to_json()) and transform(X_train) by value",
]
_BD = "AutoCarver/discretizers/utils/base_discretizers.py"
ANCHORS = [(_BD, "BaseDiscretizer._prepare_data"), (_BD, "BaseDiscretizer.fit"), ("AutoCarver/carvers/base_carver.py", "BaseCarver.__init__"),
           ("AutoCarver/carvers/binary_carver.py", "BinaryCarver._prepare_data"), ("AutoCarver/carvers/continuous_carver.py", "ContinuousCarver._prepare_data"),
           ("AutoCarver/carvers/multiclass_carver.py", "MulticlassCarver._prepare_data"), ("AutoCarver/discretizers/discretizers.py", "QuantitativeDiscretizer._prepare_data"),
           ("AutoCarver/discretizers/discretizers.py", "Discretizer.__init__")]
DECIDING_ANCHORS = [(_BD, "BaseDiscretizer._prepare_data")]
EXHAUSTIVE = {"quick": True, "thorough": True}
EXHAUSTIVE_NOTE = "the (defect x class x state) grid is enumerated completely; the samples inside each cell are random"
SAMPLES = {"quick": 5, "thorough": 80}
REQUIRED_COUNTERS = {"quick": {"malformed_calls": 400, "snapshots_compared": 150}, "thorough": {"malformed_calls": 6000, "snapshots_compared": 2000}}


def applicable(defect, cls):
    carver = cls.endswith("Carver")
    has_quant = cls in ("BinaryCarver", "MulticlassCarver", "ContinuousCarver", "Discretizer", "QuantitativeDiscretizer", "ContinuousDiscretizer")
    has_ord = cls in ("BinaryCarver", "MulticlassCarver", "ContinuousCarver", "Discretizer", "QualitativeDiscretizer", "OrdinalDiscretizer")
    has_qual = cls not in ("QuantitativeDiscretizer", "ContinuousDiscretizer")
    if defect == "wrong_classes":
        return carver
    if defect == "missing_column_dev":
        return carver
    if defect == "feature_both_types":
        return cls in ("BinaryCarver", "MulticlassCarver", "ContinuousCarver", "Discretizer")
    if defect == "string_in_quantitative":
        return has_quant
    if defect == "value_absent_from_ranking":
        return has_ord
    if defect == "unsupported_sort_by":
        return cls in ("BinaryCarver", "MulticlassCarver", "ContinuousCarver")
    if defect in ("nan_in_y", "y_index_same_len", "y_index_shorter", "y_index_longer", "y_not_series"):
        return True
    return True


def cells():
    return [(d, c, s) for d in DEFECTS for c in CLASSES for s in STATES if applicable(d, c)]


_CELLS = cells()


def n_cases(tier):
    return len(_CELLS) * SAMPLES[tier]


def budget_s(tier):
    return 900 if tier == "quick" else 7200


def min_nontrivial(tier):
    return int(0.8 * len(_CELLS))


def base_sample(rng, cls):
    """A valid sample for the class: (X, y, X_dev, y_dev, kwargs for the constructor, kind)"""
    n = int(gen.pick(rng, [60, 120, 200]))
    kind = {"BinaryCarver": "binary", "MulticlassCarver": "multiclass", "ContinuousCarver": "continuous"}.get(cls, gen.pick(rng, ["binary", "continuous"]))
    q = rng.normal(0, 1, n)
    q2 = rng.integers(0, 8, n).astype(float)
    if rng.random() < 0.3:
        q2[rng.random(n) < 0.1] = np.nan
    cat = np.array([gen.pick(rng, ["a", "b", "c", "d"], p=[0.4, 0.3, 0.2, 0.1]) for _ in range(n)], dtype=object)
    ranking = ["low", "mid", "high", "top"]
    codes = rng.choice(4, n, p=[0.3, 0.3, 0.25, 0.15])
    ordv = np.array([ranking[k] for k in codes], dtype=object)
    q3 = rng.integers(0, 12, n).astype(np.int64)  # integer dtype, no missing value
    X = pd.DataFrame({"q": q, "q2": q2, "q3": q3, "c": cat, "o": ordv})
    s = q + codes * 0.7 + rng.normal(0, 1, n)
    if kind == "binary":
        y = (s > np.median(s)).astype(int)
    elif kind == "continuous":
        y = s
    else:
        y = np.searchsorted(np.quantile(s, [0.33, 0.66]), s)
    idx = gen.index_for(rng, n, gen.pick(rng, ["range", "offset"]))
    X.index = idx
    y = pd.Series(y, index=idx)
    take = rng.choice(n, n, replace=True)
    Xd = X.iloc[take].reset_index(drop=True)
    yd = y.iloc[take].reset_index(drop=True)
    return X, y, Xd, yd, kind, ranking


def build(cls, ranking, overrides=None):
    from AutoCarver import BinaryCarver, ContinuousCarver, MulticlassCarver
    from AutoCarver.discretizers import Discretizer, QualitativeDiscretizer, QuantitativeDiscretizer
    from AutoCarver.discretizers.utils.qualitative_discretizers import CategoricalDiscretizer, ChainedDiscretizer, OrdinalDiscretizer
    from AutoCarver.discretizers.utils.quantitative_discretizers import ContinuousDiscretizer
    o = overrides or {}
    quant = o.get("quant", ["q", "q2", "q3"])
    qual = o.get("qual", ["c"])
    ordinal = o.get("ordinal", ["o"])
    vo = {"o": list(ranking)}
    if cls in ("BinaryCarver", "MulticlassCarver"):
        k = BinaryCarver if cls == "BinaryCarver" else MulticlassCarver
        return k(sort_by=o.get("sort_by", "tschuprowt"), min_freq=0.1, quantitative_features=quant, qualitative_features=qual, ordinal_features=ordinal,
                 values_orders=vo, max_n_mod=3, copy=True)
    if cls == "ContinuousCarver":
        kw = {}
        if "sort_by" in o:
            kw["sort_by"] = o["sort_by"]
        return ContinuousCarver(min_freq=0.1, quantitative_features=quant, qualitative_features=qual, ordinal_features=ordinal, values_orders=vo, max_n_mod=3, copy=True, **kw)
    if cls == "Discretizer":
        return Discretizer(quantitative_features=quant, qualitative_features=qual, min_freq=0.1, ordinal_features=ordinal, values_orders=vo, copy=True)
    if cls == "QuantitativeDiscretizer":
        return QuantitativeDiscretizer(quantitative_features=quant, min_freq=0.1, copy=True)
    if cls == "QualitativeDiscretizer":
        return QualitativeDiscretizer(qualitative_features=qual, min_freq=0.1, ordinal_features=ordinal, values_orders=vo, copy=True)
    if cls == "OrdinalDiscretizer":
        return OrdinalDiscretizer(ordinal_features=ordinal, min_freq=0.1, values_orders=vo, copy=True)
    if cls == "CategoricalDiscretizer":
        return CategoricalDiscretizer(qualitative_features=qual, min_freq=0.1, copy=True)
    if cls == "ContinuousDiscretizer":
        return ContinuousDiscretizer(quantitative_features=quant, min_freq=0.1, copy=True)
    if cls == "ChainedDiscretizer":
        return ChainedDiscretizer(qualitative_features=qual, min_freq=0.1, chained_orders=[{"ab": ["a", "b", "ab"], "cd": ["c", "d", "cd"]}, {"all": ["ab", "cd", "all"]}], copy=True)
    raise ValueError(cls)


def features_of(cls):
    return {"QuantitativeDiscretizer": ["q", "q2", "q3"], "ContinuousDiscretizer": ["q", "q2", "q3"], "QualitativeDiscretizer": ["c", "o"], "OrdinalDiscretizer": ["o"],
            "CategoricalDiscretizer": ["c"], "ChainedDiscretizer": ["c"]}.get(cls, ["q", "q2", "q3", "c", "o"])


def do_fit(obj, cls, X, y, Xd=None, yd=None):
    if cls.endswith("Carver") and Xd is not None:
        return obj.fit(X, y, X_dev=Xd, y_dev=yd)
    if cls == "ChainedDiscretizer":
        return obj.fit(X, y)
    return obj.fit(X, y)


def inject(rng, defect, cls, X, y, Xd, yd, kind):
    """Returns dict(X, y, Xd, yd, ctor overrides, via) with the defect injected; via in {'fit', 'ctor'}"""
    X, y = X.copy(), y.copy()
    Xd, yd = Xd.copy(), yd.copy()
    n = len(X)
    pos = int(rng.integers(n))
    feats = features_of(cls)
    r = {"X": X, "y": y, "Xd": Xd, "yd": yd, "ctor": None, "via": "fit", "use_dev": False, "transform_sees": False}
    if defect == "nan_in_y":
        y = y.astype(float)
        y.iloc[pos] = np.nan
        r["y"] = y
        r["transform_sees"] = True
    elif defect == "wrong_classes":
        if cls == "BinaryCarver":
            variant = gen.pick(rng, ["three", "not01", "continuous", "single_one", "single_zero"])
            if variant in ("single_one", "single_zero"):
                yy = pd.Series(np.full(n, 1 if variant == "single_one" else 0), index=y.index)
            elif variant == "three":
                yy = y.copy()
                yy.iloc[rng.choice(n, 5, replace=False)] = 2
            elif variant == "not01":
                yy = y + 1
            else:
                yy = pd.Series(rng.normal(0, 1, n), index=y.index)
            r["y"] = yy
        elif cls == "ContinuousCarver":
            variant = gen.pick(rng, ["binary", "strings"])
            r["y"] = pd.Series((rng.random(n) < 0.5).astype(int), index=y.index) if variant == "binary" else pd.Series([gen.pick(rng, ["u", "v", "w"]) for _ in range(n)], index=y.index)
            r["y"].iloc[0], r["y"].iloc[1] = r["y"].iloc[1], r["y"].iloc[0]
        else:
            yy = pd.Series((rng.random(n) < 0.5).astype(int), index=y.index)
            yy.iloc[0], yy.iloc[1] = 0, 1
            if rng.random() < 0.3:
                yy = pd.Series(np.full(n, 2), index=y.index)  # a single class
            r["y"] = yy
    elif defect == "y_index_same_len":
        yy = y.copy()
        if rng.random() < 0.5:
            yy.index = pd.Index(np.arange(n) + 100000)  # foreign labels
        else:
            perm = rng.permutation(n)  # the same labels in another order (y was shuffled, not re-indexed)
            while (perm == np.arange(n)).all():
                perm = rng.permutation(n)
            yy = pd.Series(y.values, index=y.index[perm])
        r["y"] = yy
        r["transform_sees"] = True
    elif defect == "y_index_shorter":
        r["y"] = y.iloc[:-1]
        r["transform_sees"] = True
    elif defect == "y_index_longer":
        r["y"] = pd.concat([y, pd.Series([y.iloc[0]], index=[10 ** 7])])
        r["transform_sees"] = True
    elif defect == "X_not_dataframe":
        r["X"] = gen.pick(rng, [X.values, X.to_dict(orient="list"), X[feats[0]], None.__class__])
        if r["X"] is None.__class__:
            r["X"] = X.values.tolist()
        r["transform_sees"] = True
    elif defect == "y_not_series":
        r["y"] = gen.pick(rng, ["array", "list", "frame"])
        r["y"] = {"array": y.values, "list": y.tolist(), "frame": y.to_frame()}[r["y"]]
        r["transform_sees"] = True
    elif defect == "missing_column":
        drop = gen.pick(rng, feats)
        r["X"] = X.drop(columns=[drop])
        r["dropped"] = drop
        r["transform_sees"] = True
    elif defect == "missing_column_dev":
        drop = gen.pick(rng, feats)
        r["Xd"] = Xd.drop(columns=[drop])
        r["use_dev"] = True
    elif defect == "feature_both_types":
        r["ctor"] = {"quant": ["q", "q2", "q3", "c"], "qual": ["c"]} if rng.random() < 0.5 else {"quant": ["q", "q2", "q3", "o"], "ordinal": ["o"]}
        r["via"] = "ctor_or_fit"
    elif defect == "string_in_quantitative":
        col = gen.pick(rng, [f for f in feats if f.startswith("q")])
        Xo = X.astype({col: object})
        Xo.iloc[pos, Xo.columns.get_loc(col)] = gen.pick(rng, ["oops", "12", ""])
        r["X"] = Xo
        r["transform_sees"] = True
    elif defect == "value_absent_from_ranking":
        Xo = X.copy()
        Xo.iloc[pos, Xo.columns.get_loc("o")] = "unranked"
        r["X"] = Xo
    elif defect == "unsupported_sort_by":
        r["ctor"] = {"sort_by": gen.pick(rng, ["kruskal", "chi2", "TSCHUPROWT", ""]) if cls != "ContinuousCarver" else gen.pick(rng, ["tschuprowt", "cramerv", "pearson"])}
        r["via"] = "ctor_or_fit"
    elif defect == "second_fit":
        r["via"] = "second_fit"
    return r


def snapshot(obj, X):
    snap = {"vo": common.vo_snapshot(obj.values_orders), "features": sorted(obj.features)}
    try:
        snap["json"] = json.dumps(obj.to_json(), sort_keys=True, default=repr)
    except Exception as e:  # noqa
        snap["json"] = "raised " + type(e).__name__
    try:
        out = obj.transform(X.copy())
        snap["transform"] = {c: [common._tag(v) for v in out[c].tolist()] for c in out.columns}
    except Exception as e:  # noqa
        snap["transform"] = "raised " + type(e).__name__
    return snap


def run_case(tier, seed, i):
    cell = _CELLS[i % len(_CELLS)]
    defect, cls, state = cell
    rng = gen.rng_for(ID, tier, seed, i)
    X, y, Xd, yd, kind, ranking = base_sample(rng, cls)
    counters = {"malformed_calls": 0, "snapshots_compared": 0, "rejected_with_assertion": 0}
    tags = [f"defect:{defect}", f"class:{cls}", state]
    sample = {"cell": {"defect": defect, "class": cls, "state": state}, "n": len(X)}
    key = f"{defect}|{cls}|{state}|{common.frame_fingerprint(X)[:8]}"
    viols = []
    inj = inject(rng, defect, cls, X, y, Xd, yd, kind)

    def record(e, what):
        counters["malformed_calls"] += 1
        if e is None:
            viols.append({"kind": "malformed_input_accepted", "defect": defect, "cls": cls, "state": state, "msg": f"[{cls}/{state}/{defect}] {what} was accepted"})
            return False
        if not common.is_assertion(e):
            viols.append({"kind": "wrong_exception_type", "defect": defect, "cls": cls, "state": state, "exc": common.exc_name(e),
                          "msg": f"[{cls}/{state}/{defect}] {what} raised {common.exc_name(e)} instead of AssertionError: {str(e)[:140]}"})
            return False
        counters["rejected_with_assertion"] += 1
        return True

    def finish():
        for v in viols:
            v["mechanism"] = classify(v)
        return {"status": "violation" if viols else "ok", "nontrivial": True, "key": key, "tags": tags, "counters": counters, "violations": viols[:4], "sample": sample}

    if state == "fresh":
        if inj["via"] == "ctor_or_fit":
            obj, e = common.guarded(build, cls, ranking, inj["ctor"])
            if e is not None:
                record(e, "constructor")
                return finish()
            _, e = common.guarded(do_fit, obj, cls, X, y)
            record(e, "constructor+fit")
            return finish()
        obj, e = common.guarded(build, cls, ranking)
        if e is not None:
            return {"status": "skip", "nontrivial": False, "tags": tags + ["valid_constructor_raised"], "counters": counters, "sample": sample}
        if inj["via"] == "second_fit":
            _, e = common.guarded(do_fit, obj, cls, X, y)
            if e is not None:
                return {"status": "skip", "nontrivial": False, "tags": tags + ["valid_fit_raised:" + common.exc_name(e)], "counters": counters, "sample": sample}
            _, e = common.guarded(do_fit, obj, cls, X, y)
            record(e, "second fit")
            return finish()
        _, e = common.guarded(do_fit, obj, cls, inj["X"], inj["y"], inj["Xd"] if inj["use_dev"] else None, inj["yd"] if inj["use_dev"] else None)
        record(e, "fit")
        return finish()
    # ---- already fitted object
    obj, e = common.guarded(build, cls, ranking)
    if e is None:
        _, e = common.guarded(do_fit, obj, cls, X, y)
    if e is not None:
        return {"status": "skip", "nontrivial": False, "tags": tags + ["valid_fit_raised:" + common.exc_name(e)], "counters": counters, "sample": sample}
    before = snapshot(obj, X)
    calls = []
    if inj["via"] == "ctor_or_fit":
        # the defect lives in the constructor: nothing to send to a fitted object except a second (valid) fit
        calls.append(("second fit", lambda: do_fit(obj, cls, X, y)))
    elif inj["via"] == "second_fit":
        perm = rng.permutation(len(X))
        calls.append(("second fit on shuffled data", lambda: do_fit(obj, cls, X.iloc[perm], y.iloc[perm])))
    else:
        calls.append(("second fit with the malformed sample", lambda: do_fit(obj, cls, inj["X"], inj["y"], inj["Xd"] if inj["use_dev"] else None, inj["yd"] if inj["use_dev"] else None)))
        if inj["transform_sees"]:
            x_bad = inj["X"]
            y_bad = inj["y"] if defect in ("nan_in_y", "y_index_same_len", "y_index_shorter", "y_index_longer", "y_not_series") else None
            calls.append(("transform with the malformed input", lambda: obj.transform(x_bad.copy() if hasattr(x_bad, "copy") else x_bad, y_bad) if y_bad is not None else obj.transform(x_bad.copy() if hasattr(x_bad, "copy") else x_bad)))
    for what, call in calls:
        _, e = common.guarded(call)
        record(e, what)
        after = snapshot(obj, X)
        counters["snapshots_compared"] += 1
        if after != before:
            changed = [k for k in before if before[k] != after[k]]
            viols.append({"kind": "state_changed_by_rejected_call", "defect": defect, "cls": cls, "state": state, "what": what,
                          "msg": f"[{cls}/{state}/{defect}] {what}: {changed} changed although the call {'was rejected' if e is not None else 'returned'}"})
            break
    return finish()


def classify(v):
    return None
