"""C12 -- MulticlassCarver equals one-vs-rest BinaryCarvers (differential oracle over real fits)."""
import numpy as np
import pandas as pd

from .. import common, gen, interp

ID = "C12"
RULE = ("multi-feature frames (quantitative / categorical / ordinal, NaN) with 3..5 target classes (int labels, int labels "
        "whose string order differs from the numeric one, str labels), optional dev sample, all BinaryCarver parameters incl. "
        "min_freq_mod; a MulticlassCarver is fitted and, independently, one BinaryCarver per class c_i (i>=1, classes sorted as "
        "strings) on 1[y=c_i] with fresh copies of every argument; presence and values of every column f_ci are compared. "
        "Non-trivial: at least one f_ci column with >= 2 labels; distinct by data+config.")
ASSUMPTIONS = [
    "classes are ordered by their string form; the first one gets no column",
    "outputs compared by value (NaN == NaN, int/float of equal labels equal)",
]
_MC = "AutoCarver/carvers/multiclass_carver.py"
ANCHORS = [(_MC, "MulticlassCarver.fit"), (_MC, "MulticlassCarver._prepare_data"), (_MC, "dict_append_class"),
           ("AutoCarver/discretizers/utils/base_discretizers.py", "BaseDiscretizer._cast_features")]
DECIDING_ANCHORS = [(_MC, "MulticlassCarver.fit")]
N = {"quick": 120, "thorough": 2500}
REQUIRED_COUNTERS = {"quick": {"class_columns_compared": 300, "binary_carvers_fitted": 200, "columns_absent_in_both": 10},
                     "thorough": {"class_columns_compared": 6000, "binary_carvers_fitted": 4000, "columns_absent_in_both": 200}}


def n_cases(tier):
    return N[tier]


def budget_s(tier):
    return 900 if tier == "quick" else 7200


def min_nontrivial(tier):
    return 60 if tier == "quick" else 1200


def one_class_only_case(rng):
    """1..2 ordinal/categorical features built from exact counts so that each is informative for exactly one of the carved classes
    (identical rates -> dropped) : every raw feature then keeps exactly one class column."""
    c = gen.Case()
    c.kind = "multiclass"
    labels = gen.pick(rng, [[0, 1, 2], ["a", "b", "c"], [2, 10, 33]])
    srt = sorted(labels, key=str)  # classes ordered by their string form; the first one is the reference class
    nf = int(rng.integers(1, 3))
    unit = 60
    blocks = []
    for j in range(nf):
        informative = srt[1 + (j % 2)]  # alternate the class the feature speaks about
        other = srt[2 - (j % 2)]
        counts_inf = [10, 20, 30] if rng.random() < 0.5 else [30, 20, 10]
        blocks.append((informative, other, counts_inf))
    # rows: one block per modality triple; features are built independently on the same target by re-sorting rows per feature
    mods = ["m_a", "k_b", "z_c"]
    y = []
    cols = {f"o{j}": [] for j in range(nf)}
    # build the target from the first feature, then give the other feature the same structure through a permutation within classes
    informative, other, counts_inf = blocks[0]
    for mod, ci in zip(mods, counts_inf):
        yy = [informative] * ci + [other] * 15 + [srt[0]] * (unit - ci - 15)
        y += yy
        cols["o0"] += [mod] * unit
    y = np.array(y, dtype=object if isinstance(labels[0], str) else int)
    if nf == 2:
        # second feature: informative for the other carved class, flat for the first one
        informative2, other2, counts2 = blocks[1]
        col = np.empty(len(y), dtype=object)
        for cls in srt:
            idx = np.where(y == cls)[0]
            idx = idx[rng.permutation(len(idx))]
            if cls == informative2:
                sizes = [int(round(len(idx) * w / sum(counts2))) for w in counts2]
            else:
                sizes = [len(idx) // 3] * 3
            sizes[-1] = len(idx) - sum(sizes[:-1])
            start = 0
            for mod, s in zip(mods, sizes):
                col[idx[start:start + s]] = mod
                start += s
        cols["o1"] = list(col)
    order = rng.permutation(len(y))
    c.X = pd.DataFrame({k: np.array(v, dtype=object)[order] for k, v in cols.items()})
    c.X["untouched"] = rng.normal(0, 1, len(y))
    c.y = pd.Series(y[order])
    for k in cols:
        if rng.random() < 0.5:
            c.ordinal.append(k)
            c.values_orders[k] = list(mods)
        else:
            c.qual.append(k)
    c.config = {"min_freq": 0.1, "max_n_mod": 3, "min_freq_mod": None, "dropna": True, "output_dtype": gen.pick(rng, ["float", "str"]), "copy": True,
                "sort_by": gen.pick(rng, ["tschuprowt", "cramerv"])}
    c.meta = {"family": "one_class_only", "class_labels": [repr(v) for v in labels]}
    return c


def run_case(tier, seed, i):
    from AutoCarver import BinaryCarver
    rng = gen.rng_for(ID, tier, seed, i)
    if rng.random() < 0.15:
        case = one_class_only_case(rng)
    else:
        case = gen.multi_feature_case(rng, kind="multiclass", n=int(gen.pick(rng, [150, 300, 500])), n_feat=int(rng.integers(1, 5)),
                                      with_dev=rng.random() < 0.35, allow_numeric_cat=True)
    cfg = case.config
    if rng.random() < 0.5:
        cfg["min_freq_mod"] = gen.pick(rng, [0.05, 0.1, 0.2, 0.25])
    counters = {"class_columns_compared": 0, "binary_carvers_fitted": 0, "columns_absent_in_both": 0, "rows_compared": 0}
    tags = ["labels_" + str(case.meta.get("class_labels"))[:30]]
    sample = case.describe()
    before = common.frame_fingerprint(case.X)
    mc = gen.make_carver(case)
    _, e = common.guarded(mc.fit, case.X, case.y, **gen.fit_kwargs(case))
    if e is not None:
        return {"status": "skip", "nontrivial": False, "tags": tags + ["fit_" + ("assertion" if common.is_assertion(e) else "internal_error:" + common.exc_name(e))], "counters": counters, "sample": sample}
    out, e = common.guarded(mc.transform, case.X)
    viols = []
    if e is not None:
        viols.append({"kind": "multiclass_transform_raised", "msg": f"MulticlassCarver.transform raised {common.exc_name(e)}: {str(e)[:200]}"})
        return {"status": "violation", "nontrivial": True, "key": common.case_hash(case), "tags": tags, "counters": counters, "violations": viols, "sample": sample}
    classes = sorted({str(v) for v in case.y.tolist()})
    ystr = case.y.astype(str)
    ydev_str = None if case.y_dev is None else case.y_dev.astype(str)
    nontrivial = False
    # raw columns unchanged
    for c in case.X.columns:
        if c not in out.columns or common.series_diff(out[c].tolist(), case.X[c].tolist()):
            viols.append({"kind": "raw_column_changed", "msg": f"raw column {c} changed or missing in MulticlassCarver output"})
    # no column for the first class
    for f in case.features:
        if f"{f}_{classes[0]}" in out.columns:
            viols.append({"kind": "column_for_first_class", "msg": f"column {f}_{classes[0]} exists for the reference class {classes[0]!r}"})
    expected_cols = set()
    for cl in classes[1:]:
        sub = gen.Case()
        sub.X, sub.X_dev = case.X.copy(), None if case.X_dev is None else case.X_dev.copy()
        sub.y = (ystr == cl).astype(int)
        sub.y_dev = None if ydev_str is None else (ydev_str == cl).astype(int)
        sub.kind = "binary"
        sub.quant, sub.qual, sub.ordinal = list(case.quant), list(case.qual), list(case.ordinal)
        sub.values_orders = case.orders_copy()
        sub.config = dict(cfg)
        bc = gen.make_carver(sub, copy=True)
        _, e = common.guarded(bc.fit, sub.X, sub.y, **gen.fit_kwargs(sub))
        counters["binary_carvers_fitted"] += 1
        if e is not None:
            viols.append({"kind": "binary_fit_raised_but_multiclass_did_not", "msg": f"BinaryCarver on class {cl!r} raised {common.exc_name(e)}: {str(e)[:160]} while MulticlassCarver completed"})
            continue
        bout, e = common.guarded(bc.transform, sub.X)
        if e is not None:
            viols.append({"kind": "binary_transform_raised", "msg": f"BinaryCarver.transform on class {cl!r} raised {common.exc_name(e)}"})
            continue
        for f in case.features:
            col = f"{f}_{cl}"
            kept_b = f in bc.features
            kept_m = col in mc.features
            if kept_b:
                expected_cols.add(col)
            if kept_b != kept_m:
                viols.append({"kind": "kept_set_differs", "msg": f"{col}: BinaryCarver {'keeps' if kept_b else 'drops'} {f} for class {cl!r} but MulticlassCarver {'keeps' if kept_m else 'drops'} it"})
                continue
            if not kept_b:
                counters["columns_absent_in_both"] += 1
                if col in out.columns:
                    viols.append({"kind": "column_present_for_dropped_feature", "msg": f"{col} present in the output although dropped"})
                continue
            if col not in out.columns:
                viols.append({"kind": "column_missing", "msg": f"{col} missing from MulticlassCarver output"})
                continue
            counters["class_columns_compared"] += 1
            counters["rows_compared"] += len(out)
            d = common.series_diff(out[col].tolist(), bout[f].tolist())
            if d:
                viols.append({"kind": "column_differs_from_binary_carver", "msg": f"{col} differs from BinaryCarver({cl!r}).transform(X)[{f}] at {d}"})
            if len({common.label_key(v) for v in bout[f].tolist()}) >= 2:
                nontrivial = True
    extra = [c for c in out.columns if c not in case.X.columns and c not in expected_cols]
    for c in extra:
        if not any(v["msg"].startswith(c) for v in viols):
            viols.append({"kind": "unexpected_column", "msg": f"unexpected output column {c}"})
    if common.frame_fingerprint(case.X) != before:
        viols.append({"kind": "input_modified", "msg": "X modified by MulticlassCarver (copy=True)"})
    for v in viols:
        v["mechanism"] = None
    sample["classes_sorted_as_strings"] = classes
    sample["multiclass_features"] = list(mc.features)
    if viols:
        sample["frame"] = gen.frame_to_json(case.X, case.y)
    return {"status": "violation" if viols else "ok", "nontrivial": nontrivial, "key": common.case_hash(case), "tags": tags, "counters": counters,
            "violations": viols[:6], "sample": sample}
