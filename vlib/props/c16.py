"""C16 -- summary() and history() truthfully describe the fitted object (cross-examination of the public views)."""
import math

import numpy as np
import pandas as pd

from .. import carve_oracle as co
from .. import common, fitted, gen, interp, oracles

ID = "C16"
RULE = ("fitted carvers (Binary / Continuous / Multiclass) and discretizers of every class on single- and multi-feature frames; "
        "summary() is compared with the kept features, with values_orders (qualitative rows must partition the known string "
        "values, quantitative features need one row per fitted group with the missing-value sentinel in the row of the group it "
        "was merged into) and with what transform outputs for every known value; summary(f) must only hold rows of f; for "
        "Binary/Continuous carvers history(f) must hold the raw-distribution entry, every enumerated combination (count = "
        "number of compositions), association values equal to an independent recomputation (rel 1e-9), and its last "
        "combination flagged viable must be the fitted grouping. Non-trivial: an object keeping a feature with >= 2 groups; "
        "distinct by data+config+class.")
ASSUMPTIONS = [
    "the '__NAN__' row of a qualitative feature under dropna=False is exempt (the statement is silent on it)",
    "quantitative combinations are stored in history as interval labels; they are mapped back to base modalities by position in the raw-distribution entry",
    "history of a feature whose first search has no viable candidate may stop after that search",
    "history is checked for Binary/Continuous carvers (MulticlassCarver histories are per class copies of those)",
]
_BD = "AutoCarver/discretizers/utils/base_discretizers.py"
_BC = "AutoCarver/carvers/base_carver.py"
ANCHORS = [(_BD, "BaseDiscretizer.summary"), (_BD, "BaseDiscretizer.history"), (_BC, "BaseCarver._historize_viability_test"), (_BC, "BaseCarver._carve_feature")]
DECIDING_ANCHORS = [(_BD, "BaseDiscretizer.summary"), (_BC, "BaseCarver._historize_viability_test")]
N = {"quick": 600, "thorough": 8000}
REQUIRED_COUNTERS = {"quick": {"summaries_checked": 250, "summary_single_feature_calls": 500, "histories_checked": 150, "history_measures_recomputed": 3000,
                               "quant_features_with_nan_merged": 15},
                     "thorough": {"summaries_checked": 5000, "summary_single_feature_calls": 10000, "histories_checked": 3000, "history_measures_recomputed": 60000,
                                  "quant_features_with_nan_merged": 300}}


def n_cases(tier):
    return N[tier]


def budget_s(tier):
    return 900 if tier == "quick" else 7200


def min_nontrivial(tier):
    return 100 if tier == "quick" else 2000


def check_summary(case, obj, counters):
    probs = []
    s, e = common.guarded(obj.summary)
    if e is not None:
        return [f"summary() raised {common.exc_name(e)}: {str(e)[:160]}"]
    counters["summaries_checked"] += 1
    feats = set(s.index.get_level_values("feature"))
    if feats != set(obj.features):
        probs.append(f"summary() lists {sorted(feats)} but the kept features are {sorted(obj.features)}")
    # a probe frame per feature gives "the label transform outputs" for each known value
    for f in obj.features:
        if f not in feats:
            continue
        rows = s.xs(f, level="feature")
        snap = interp.snapshot(obj.values_orders[f])
        dropna = obj.features_dropna.get(f, obj.dropna)
        labels = [common.label_key(v) for v in rows["label"].tolist()]
        contents = [list(c) for c in rows["content"].tolist()]
        if fitted.feature_kind(obj, f) == "quant":
            if len(labels) != len(set(labels)):
                probs.append(f"{f}: several summary rows share a label {labels}")
            if len(rows) != len(snap):
                probs.append(f"{f}: {len(rows)} summary rows for {len(snap)} fitted groups")
            nan_i = interp.nan_group(snap, obj.str_nan)
            has_nan_rows = [k for k, c in enumerate(contents) if obj.str_nan in c]
            if nan_i is None:
                if has_nan_rows:
                    probs.append(f"{f}: summary shows missing values although none were learnt")
            else:
                want = common.label_key(obj.labels_per_values[f][snap[nan_i][0]])
                if len(snap[nan_i][1]) > 1:
                    counters["quant_features_with_nan_merged"] += 1
                if len(has_nan_rows) != 1:
                    probs.append(f"{f}: missing values shown in {len(has_nan_rows)} rows")
                elif labels[has_nan_rows[0]] != want:
                    probs.append(f"{f}: missing values shown in the row labelled {labels[has_nan_rows[0]]} but they were merged into the group labelled {want}")
        else:
            known = [m for _, mem in snap for m in mem if isinstance(m, str) and m != obj.str_default]
            if not dropna:
                known = [m for m in known if m != obj.str_nan]
            flat = [c for cs in contents for c in cs]
            flat_cmp = [c for c in flat if not (not dropna and c == obj.str_nan)]
            if sorted(flat_cmp, key=repr) != sorted(known, key=repr):
                missing = sorted(set(known) - set(flat_cmp), key=repr)[:4]
                extra = sorted(set(flat_cmp) - set(known), key=repr)[:4]
                dup = sorted({c for c in flat_cmp if flat_cmp.count(c) > 1}, key=repr)[:4]
                probs.append(f"{f}: summary contents do not partition the known values (missing {missing}, unknown {extra}, duplicated {dup})")
                continue
            # label of each value = what transform outputs for it
            vals = [np.nan if v == obj.str_nan else v for v in known]
            frame = fitted.probe_frame(case, obj, f, vals)
            frame[fitted.raw_column_of(obj, f)] = np.array(vals, dtype=object)
            out, e = common.guarded(obj.transform, frame)
            if e is not None:
                probs.append(f"{f}: transform of all known values raised {common.exc_name(e)}: {str(e)[:120]}")
                continue
            got = dict(zip(known, [common.label_key(v) for v in out[f].tolist()]))
            counters["summary_values_probed"] += len(known)
            for lab, cs in zip(labels, contents):
                for c in cs:
                    if c in got and got[c] != lab and not (not dropna and c == obj.str_nan):
                        probs.append(f"{f}: summary gives value {c!r} the label {lab} but transform outputs {got[c]}")
                        break
    # summary(feature) contains rows of that feature only
    for f in list(obj.features)[:4]:
        sf, e = common.guarded(obj.summary, f)
        counters["summary_single_feature_calls"] += 1
        if e is not None:
            probs.append(f"summary({f!r}) raised {common.exc_name(e)}: {str(e)[:120]}")
            continue
        other = set(sf.index.get_level_values("feature")) - {f}
        if other:
            probs.append(f"summary({f!r}) contains rows of {sorted(other)}")
        elif len(sf) != len(s.xs(f, level='feature', drop_level=False)):
            probs.append(f"summary({f!r}) has {len(sf)} rows but summary() has {len(s.xs(f, level='feature', drop_level=False))} rows for it")
    return probs


def check_history(case, carver, f, counters):
    """history(f) of a kept feature of a Binary/Continuous carver against the C01 oracle's per-candidate measures."""
    probs = []
    h, e = common.guarded(carver.history, f)
    if e is not None:
        return [f"history({f!r}) raised {common.exc_name(e)}: {str(e)[:150]}"]
    if h is None or len(h) == 0:
        return [f"history({f!r}) is empty"]
    cfg = case.config
    sort_by = cfg["sort_by"]
    recs = h.to_dict(orient="records")
    raw = [r for r in recs if isinstance(r.get("viability_message"), list) and r["viability_message"] == ["Raw X distribution"]]
    if len(raw) != 1:
        return [f"history({f!r}) holds {len(raw)} raw-distribution entries"]
    raw = raw[0]
    ftype = case.ftype(f)
    # base modalities, in order, from the raw entry and from a separately fitted Discretizer
    sub = gen.Case()
    sub.X, sub.y, sub.config = case.X[[f]].copy(), case.y.copy(), cfg
    sub.quant = [f] if ftype == "quant" else []
    sub.qual = [f] if ftype == "cat" else []
    sub.ordinal = [f] if ftype == "ord" else []
    sub.values_orders = {f: list(case.values_orders[f])} if f in case.values_orders else {}
    disc = gen.make_discretizer(sub)
    _, e = common.guarded(disc.fit, sub.X, sub.y)
    if e is not None or f not in disc.features:
        return []
    base_snap = interp.snapshot(disc.values_orders[f])
    mfm = cfg["min_freq_mod"] if cfg.get("min_freq_mod") is not None else cfg["min_freq"] / 2
    fo = co.FeatureOracle(case.kind, sort_by, mfm, cfg["max_n_mod"], cfg["dropna"], base_snap, ftype == "quant", case.X[f].tolist(), case.y.tolist())
    if fo.unmapped_train:
        return []
    raw_groups = raw["combination"]
    if len(raw_groups) != len(base_snap):
        probs.append(f"raw-distribution entry has {len(raw_groups)} modalities, the base discretization {len(base_snap)}")
        return probs

    def to_buckets(comb):
        """history combination -> list of lists of base bucket indices (None if it cannot be mapped)"""
        out = []
        for grp in comb:
            idx = set()
            for v in grp:
                if ftype == "quant":
                    hit = [k for k, rg in enumerate(raw_groups) if any(isinstance(x, str) and x == v for x in rg)] if isinstance(v, str) else []
                    if not hit:
                        return None
                    idx.add(hit[0])
                else:
                    g = interp.qual_group(base_snap, v, carver.str_nan) if not (isinstance(v, str) and v == carver.str_nan) else fo.nan_idx
                    if g is None:
                        return None
                    idx.add(g)
            out.append(sorted(idx))
        flat = [b for g in out for b in g]
        if len(flat) != len(set(flat)):
            return None
        return out

    # raw entry: position k <-> base bucket k
    rb = to_buckets(raw_groups)
    if rb is None or [g for g in rb] != [[k] for k in range(len(base_snap))]:
        if ftype != "quant":
            probs.append(f"raw-distribution entry does not list the base modalities in order: {str(raw_groups)[:150]}")
            return probs
    m_raw = fo.train2.measure([[k] for k in range(len(base_snap))], sort_by)
    counters["history_measures_recomputed"] += 1
    if not (oracles.close(float(raw[sort_by]), m_raw) or (math.isnan(float(raw[sort_by])) and math.isnan(m_raw))):
        probs.append(f"raw-distribution association {raw[sort_by]!r} != recomputed {m_raw!r}")
    tested = [r for r in recs if r is not raw and isinstance(r.get("combination"), list)]
    s1 = [r for r in tested if not r.get("grouping_nan")]
    s2 = [r for r in tested if r.get("grouping_nan")]
    expect1 = oracles.n_compositions(len(fo.nn), cfg["max_n_mod"])
    if len(s1) != expect1:
        probs.append(f"history holds {len(s1)} combinations of the first search, {expect1} order-contiguous groupings exist")
    for r in s1 + s2:
        gb = to_buckets(r["combination"])
        if gb is None:
            probs.append(f"history combination cannot be mapped to base modalities: {str(r['combination'])[:120]}")
            break
        stats = fo.train2 if r.get("grouping_nan") else fo.train1
        if not r.get("grouping_nan") and fo.nan_idx is not None and any(fo.nan_idx in g for g in gb):
            probs.append("a first-search combination contains the missing-value modality")
            break
        m = stats.measure(gb, sort_by)
        counters["history_measures_recomputed"] += 1
        rec = float(r[sort_by])
        if not (oracles.close(rec, m) or (math.isnan(rec) and math.isnan(m))):
            probs.append(f"history association {rec!r} of {gb} != recomputed {m!r}")
            break
    # last combination flagged viable == fitted grouping
    viable = [r for r in tested if r.get("viability") is True]
    if not viable:
        probs.append("feature kept but history has no combination flagged viable")
        return probs
    last = to_buckets(viable[-1]["combination"])
    fitted_snap = interp.snapshot(carver.values_orders[f])
    part, prob, mp = fo.fitted_partition(fitted_snap, case.X[f].tolist())
    if prob is None and last is not None:
        hist_part = co.canon(last)
        if fo.nan_idx is not None and not any(fo.nan_idx in g for g in last):
            hist_part = co.canon(list(last) + [[fo.nan_idx]])
        observed = set(mp)
        if fo.restrict(hist_part, observed) != part:
            probs.append(f"last combination flagged viable {fo.restrict(hist_part, observed)} is not the fitted grouping {part}")
    return probs


def run_case(tier, seed, i):
    rng = gen.rng_for(ID, tier, seed, i)
    case, which = fitted.object_case(rng, hostile=rng.random() < 0.2)
    if which != "carver" and rng.random() < 0.5:
        which = "carver"
    counters = {"summaries_checked": 0, "summary_single_feature_calls": 0, "summary_values_probed": 0, "histories_checked": 0,
                "history_measures_recomputed": 0, "quant_features_with_nan_merged": 0}
    tags = [which, case.kind]
    sample = case.describe()
    sample["estimator"] = which
    obj, e = fitted.fit_object(case, which)
    if e is not None:
        return {"status": "skip", "nontrivial": False, "tags": tags + ["fit_" + ("assertion" if common.is_assertion(e) else "internal_error:" + common.exc_name(e))], "counters": counters, "sample": sample}
    if not obj.features:
        return {"status": "skip", "nontrivial": False, "tags": tags + ["no_feature_kept"], "counters": counters, "sample": sample}
    viols = []
    for p in check_summary(case, obj, counters)[:3]:
        viols.append({"kind": "summary_untruthful", "msg": p})
    if which == "carver" and case.kind in ("binary", "continuous"):
        for f in list(obj.features)[:3]:
            counters["histories_checked"] += 1
            for p in check_history(case, obj, f, counters)[:2]:
                viols.append({"kind": "history_untruthful", "feature": f, "msg": f"{f}: {p}"})
    for v in viols:
        v["mechanism"] = None
    nontrivial = any(len(obj.values_orders[f]) >= 2 for f in obj.features)
    sample["kept"] = list(obj.features)
    if viols:
        sample["frame"] = gen.frame_to_json(case.X, case.y)
    return {"status": "violation" if viols else "ok", "nontrivial": nontrivial, "key": common.case_hash(case, which), "tags": tags, "counters": counters,
            "violations": viols[:6], "sample": sample}
