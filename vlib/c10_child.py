"""Child of C10: the same fit in a fresh interpreter whose PYTHONHASHSEED was chosen by the parent."""
import json
import pickle
import sys

from vlib import env

if __name__ == "__main__":
    env.bootstrap()
    from vlib import monitors
    from vlib.props import c10
    rec = pickle.load(open(sys.argv[1], "rb"))
    try:
        dump, order = c10.dump_of(rec["case"], rec["which"])
        print(json.dumps({"dump": dump, "iteration_order": order}))
    except Exception as e:  # noqa
        print(json.dumps({"error": f"{type(e).__name__}: {e}"}))
