"""Independent maths (never calls the code under test). numpy/scipy primitives (rankdata, unique) are trusted."""
import itertools
import math

import numpy as np
from scipy.stats import rankdata

RTOL = 1e-9


def close(a, b, rtol=RTOL):
    if a is None or b is None:
        return False
    if isinstance(a, float) and isinstance(b, float) and math.isnan(a) and math.isnan(b):
        return True
    return abs(a - b) <= rtol * max(1.0, abs(a), abs(b))


def n_compositions(k, m):
    return sum(math.comb(k - 1, g - 1) for g in range(2, min(k, m) + 1))


def compositions(k, m):
    """All cuts of range(k) into 2..m contiguous groups; each as list of lists of indices."""
    out = []
    for g in range(2, min(m, k) + 1):
        for cuts in itertools.combinations(range(1, k), g - 1):
            b = (0,) + cuts + (k,)
            out.append([list(range(b[i], b[i + 1])) for i in range(g)])
    assert len(out) == n_compositions(k, m)
    return out


def chi2_stat(tab):
    """Pearson chi2 with Yates' correction exactly when the table is 2x2 (= scipy.stats.chi2_contingency defaults)."""
    tab = np.asarray(tab, float)
    r = tab.sum(1, keepdims=True)
    c = tab.sum(0, keepdims=True)
    n = tab.sum()
    with np.errstate(all="ignore"):
        e = r * c / n
        if tab.shape == (2, 2):
            d = e - tab
            tab = tab + np.minimum(0.5, np.abs(d)) * np.sign(d)
        return float((((tab - e) ** 2) / e).sum())


def cramerv_T(tab, n_obs=None):
    """(Cramer's V as the library defines it for a binary target: sqrt(chi2/n), Tschuprow's T = V/(g-1)^(1/4))"""
    tab = np.asarray(tab, float)
    chi2 = chi2_stat(tab)
    n = tab.sum() if n_obs is None else n_obs
    with np.errstate(all="ignore"):
        v = math.sqrt(chi2 / n) if chi2 == chi2 and n > 0 and chi2 >= 0 else float("nan")
        t = v / math.sqrt(math.sqrt(tab.shape[0] - 1)) if tab.shape[0] > 1 else float("nan")
    return v, t


def kruskal_H(groups):
    """Kruskal-Wallis H with tie correction."""
    groups = [np.asarray(g, float) for g in groups]
    if any(len(g) == 0 for g in groups):
        return float("nan")
    allv = np.concatenate(groups)
    n = len(allv)
    if n < 2:
        return float("nan")
    r = rankdata(allv)
    _, cnt = np.unique(allv, return_counts=True)
    T = 1 - (cnt ** 3 - cnt).sum() / (n ** 3 - n)
    if T == 0:
        return float("nan")
    s = 0.0
    i = 0
    for g in groups:
        k = len(g)
        s += r[i:i + k].sum() ** 2 / k
        i += k
    H = 12 / (n * (n + 1)) * s - 3 * (n + 1)
    return float(H / T)


def pearson(x, y):
    x = np.asarray(x, float)
    y = np.asarray(y, float)
    ok = ~(np.isnan(x) | np.isnan(y))
    x, y = x[ok], y[ok]
    if len(x) < 2:
        return float("nan")
    xm, ym = x - x.mean(), y - y.mean()
    den = math.sqrt(float((xm ** 2).sum()) * float((ym ** 2).sum()))
    if den == 0:
        return float("nan")
    return float((xm * ym).sum() / den)


def spearman(x, y):
    x = np.asarray(x, float)
    y = np.asarray(y, float)
    ok = ~(np.isnan(x) | np.isnan(y))
    x, y = x[ok], y[ok]
    if len(x) < 2:
        return float("nan")
    return pearson(rankdata(x), rankdata(y))


def crosstab(a, b):
    """Contingency table of two label sequences on rows where both are present (None = missing)."""
    pairs = [(u, v) for u, v in zip(a, b) if u is not None and v is not None]
    ua = sorted(set(p[0] for p in pairs), key=repr)
    ub = sorted(set(p[1] for p in pairs), key=repr)
    ia = {u: i for i, u in enumerate(ua)}
    ib = {u: i for i, u in enumerate(ub)}
    tab = np.zeros((len(ua), len(ub)))
    for u, v in pairs:
        tab[ia[u], ib[v]] += 1
    return tab


def isclose_np(a, b):
    return bool(np.isclose(a, b))


def rates_distinct(rates, strict):
    """Adjacent rates distinct. strict=False: numpy.isclose reading (the library's); strict=True: exact inequality."""
    rates = list(rates)
    for a, b in zip(rates[:-1], rates[1:]):
        if a != a or b != b:
            # a NaN rate (empty group) is never 'close' to anything under numpy.isclose
            continue
        if strict:
            if a == b:
                return False
        else:
            if np.isclose(a, b):
                return False
    return True


def same_ranking(ra, rb):
    """Groups ranked identically by rate on both samples: no strict inversion allowed either way, ties accepted
    only if some consistent order exists (argsort equality under a stable sort is what the library does; ties make
    that tie-break dependent, so with ties we accept iff there is no pair strictly ordered one way in a and the other
    way in b)."""
    n = len(ra)
    for i in range(n):
        for j in range(i + 1, n):
            a = ra[i] - ra[j]
            b = rb[i] - rb[j]
            if a != a or b != b:
                return False
            if (a < 0 and b > 0) or (a > 0 and b < 0):
                return False
    return True
