"""Helpers shared by the property modules: guarded calls, value comparison (DESIGN 1.5), estimator snapshots."""
import hashlib
import json
import math

import numpy as np
import pandas as pd

from . import interp


def guarded(fn, *a, **k):
    """Calls the real code; returns (result, None) or (None, exception). BaseException (timeouts...) propagates."""
    try:
        return fn(*a, **k), None
    except Exception as e:  # noqa
        return None, e


def exc_name(e):
    return type(e).__name__


def is_assertion(e):
    return isinstance(e, AssertionError)


def cell_equal(a, b):
    an, bn = interp.is_nan(a), interp.is_nan(b)
    if an or bn:
        return an and bn
    if isinstance(a, str) != isinstance(b, str):
        return False
    try:
        return bool(a == b)
    except Exception:  # noqa
        return False


def series_diff(a, b, limit=3):
    """Positions where two sequences differ by value (NaN == NaN; 1 == 1.0; dtype ignored)."""
    la, lb = list(a), list(b)
    if len(la) != len(lb):
        return [("length", len(la), len(lb))]
    out = []
    for i, (x, y) in enumerate(zip(la, lb)):
        if not cell_equal(x, y):
            out.append((i, repr(x), repr(y)))
            if len(out) >= limit:
                break
    return out


def frames_diff(A, B, columns=None, check_index=True, limit=3):
    """Differences between two frames compared by value. Returns list of strings (empty = equal)."""
    out = []
    if A is None or B is None:
        return ["one frame is None"] if (A is None) != (B is None) else []
    if check_index:
        if len(A.index) != len(B.index) or not all(cell_equal(x, y) for x, y in zip(A.index, B.index)):
            out.append("index differs")
            return out
    cols = list(columns) if columns is not None else list(A.columns)
    if columns is None and list(A.columns) != list(B.columns):
        out.append(f"columns differ: {list(A.columns)} vs {list(B.columns)}")
        return out
    for c in cols:
        if c not in A.columns or c not in B.columns:
            out.append(f"column {c} missing")
            continue
        d = series_diff(A[c].tolist(), B[c].tolist(), limit)
        if d:
            out.append(f"column {c}: {d}")
            if len(out) >= limit:
                break
    return out


def frame_fingerprint(df):
    """Bit-level fingerprint of a frame/series: values, dtypes, index, column order (for 'inputs not modified')."""
    if df is None:
        return None
    h = hashlib.sha1()
    if isinstance(df, pd.Series):
        h.update(str(df.dtype).encode())
        h.update(repr(df.name).encode())
        h.update(repr(list(df.index)).encode())
        h.update(repr([_cell_repr(v) for v in df.tolist()]).encode())
        return h.hexdigest()
    h.update(repr(list(df.columns)).encode())
    h.update(repr([str(t) for t in df.dtypes]).encode())
    h.update(repr(list(df.index)).encode())
    for c in df.columns:
        h.update(repr([_cell_repr(v) for v in df[c].tolist()]).encode())
    return h.hexdigest()


def _cell_repr(v):
    if interp.is_nan(v):
        return "NaN"
    return (type(v).__name__, repr(v))


def vo_snapshot(values_orders):
    """Canonical dump of a values_orders dict: ordered (leader, members) with type tags."""
    out = {}
    for f, order in values_orders.items():
        out[f] = [(_tag(l), [_tag(m) for m in order.content.get(l, [])]) for l in list(order)]
    return out


def _tag(v):
    if isinstance(v, str):
        return "s:" + v
    if interp.is_nan(v):
        return "nan"
    if isinstance(v, (bool, np.bool_)):
        return "b:" + str(bool(v))
    if isinstance(v, (int, float, np.integer, np.floating)):
        return "n:" + repr(float(v))
    return "o:" + repr(v)


def vo_snapshot_jsonable(x):
    """tuples -> lists, so that dumps that travelled through JSON compare equal to local ones"""
    return json.loads(json.dumps(x))


def estimator_snapshot(obj, with_json=True):
    """State of a fitted discretizer/carver as plain data (no library lookups besides to_json)."""
    snap = {
        "features": sorted(obj.features),
        "values_orders": vo_snapshot(obj.values_orders),
        "labels_per_values": {f: sorted((_tag(k), _tag(v)) for k, v in d.items()) for f, d in getattr(obj, "labels_per_values", {}).items()},
        "input_dtypes": dict(sorted(obj.input_dtypes.items())) if isinstance(obj.input_dtypes, dict) else obj.input_dtypes,
        "features_dropna": dict(sorted(obj.features_dropna.items())),
        "features_casting": {k: list(v) for k, v in sorted(obj.features_casting.items())},
        "quantitative": sorted(obj.quantitative_features), "qualitative": sorted(obj.qualitative_features),
        "is_fitted": obj.is_fitted,
    }
    if with_json:
        try:
            snap["json"] = json.dumps(obj.to_json(), sort_keys=True, default=repr)
        except Exception as e:  # noqa
            snap["json"] = "to_json raised " + type(e).__name__
    return snap


def snapshot_hash(snap):
    return hashlib.sha1(json.dumps(snap, sort_keys=True, default=repr).encode()).hexdigest()


def snapshot_diff(a, b):
    return [k for k in a if a.get(k) != b.get(k)]


def case_hash(case, extra=""):
    h = hashlib.sha1()
    h.update(repr(sorted(case.config.items(), key=str)).encode())
    h.update(repr(sorted(case.values_orders.items())).encode())
    h.update(extra.encode())
    for df in (case.X, case.y, case.X_dev, case.y_dev):
        if df is not None:
            h.update(frame_fingerprint(df).encode())
    return h.hexdigest()[:16]


def partition_of(labels):
    """Partition of row positions induced by a label sequence (NaN is one block)."""
    blocks = {}
    for i, v in enumerate(labels):
        k = ("nan",) if interp.is_nan(v) else (("s", v) if isinstance(v, str) else ("n", float(v)))
        blocks.setdefault(k, []).append(i)
    return sorted(tuple(b) for b in blocks.values())


def label_key(v):
    return ("nan",) if interp.is_nan(v) else (("s", v) if isinstance(v, str) else ("n", float(v)))


def fit_any(case, obj):
    """fit for carvers (with dev) or discretizers"""
    from AutoCarver.carvers.base_carver import BaseCarver
    if isinstance(obj, BaseCarver):
        from . import gen
        return obj.fit(case.X, case.y, **gen.fit_kwargs(case))
    return obj.fit(case.X, case.y)


ESTIMATOR_KINDS = ["carver", "Discretizer", "QuantitativeDiscretizer", "QualitativeDiscretizer"]


def make_estimator(case, which, n_jobs=1, **override):
    from . import gen
    if which == "carver":
        return gen.make_carver(case, n_jobs=n_jobs, **override)
    return gen.make_discretizer(case, which, n_jobs=n_jobs)


def applicable_kinds(case):
    kinds = ["carver", "Discretizer"]
    if case.quant:
        kinds.append("QuantitativeDiscretizer")
    if case.qual or case.ordinal:
        kinds.append("QualitativeDiscretizer")
    return kinds


def sub_case_for(case, which):
    """A discretizer sub-class only sees the columns of its type: returns the feature list it handles."""
    if which == "QuantitativeDiscretizer":
        return list(case.quant)
    if which == "QualitativeDiscretizer":
        return list(case.qual) + list(case.ordinal)
    return list(case.features)
