"""Bootstrap: locate the code under test, make icontract importable, refuse to run on a stale copy."""
import os
import subprocess
import sys

VERIF = os.path.dirname(os.path.dirname(os.path.abspath(__file__)))
REPO = os.environ.get("VERIF_REPO", "/repo")
DEPS = os.path.join(VERIF, ".deps")
PY = "/venv/bin/python"
GUARD = "AUTOCARVER_VERIF"


def ensure_deps():
    """icontract is installed offline, lazily (a fresh restore has no .deps)."""
    if os.path.isdir(os.path.join(DEPS, "icontract")):
        return
    os.makedirs(DEPS, exist_ok=True)
    subprocess.run(
        [PY, "-m", "pip", "install", "--quiet", "--no-index", "--find-links",
         "/opt/veriftools/wheels", "--target", DEPS, "icontract"],
        check=True, stdout=subprocess.DEVNULL, stderr=subprocess.DEVNULL,
        env=dict(os.environ, PIP_NO_INDEX="1"),
    )


def bootstrap():
    """Import AutoCarver from REPO's working tree (no build step: importing *is* rebuilding)."""
    os.environ[GUARD] = "1"
    os.environ.setdefault("PYTHONDONTWRITEBYTECODE", "1")
    sys.dont_write_bytecode = True
    if REPO not in sys.path:
        sys.path.insert(0, REPO)
    if DEPS not in sys.path:
        sys.path.append(DEPS)  # last: must not shadow /venv's packages
    import warnings
    warnings.filterwarnings("ignore")
    import AutoCarver  # noqa
    here = os.path.realpath(os.path.dirname(AutoCarver.__file__))
    if not here.startswith(os.path.realpath(REPO) + os.sep):
        raise RuntimeError(f"AutoCarver imported from {here}, not from {REPO}")
    return AutoCarver
