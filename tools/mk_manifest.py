import json,sys
sys.path.insert(0,'/verif')
props=[json.loads(l) for l in open('/verif/properties.jsonl')]
claimed=json.load(open('/verif/manifest_checks.json'))
checks=[]
for p in props:
    pid=p['id']
    if pid not in claimed: continue
    c=claimed[pid]
    checks.append({
      "property_id":pid,
      "quick_cmd":f"./vcheck {pid} quick",
      "thorough_cmd":f"./vcheck {pid} thorough",
      "evidence_file":f"evidence/{pid}.json",
      "replay_cmd_template":f"./vcheck {pid} --replay {{path}}",
      "engine":"vlib",
      "level_claimed":{"category":"exploration","text":c["text"],"design_ref":c["design_ref"]},
      "level_note":c["note"],
      "technique":c["technique"],
    })
na=[{"property_id":p['id'],"reason":"check not built yet (work in progress) -- see DESIGN.md section 2 for the planned monitor"} for p in props if p['id'] not in claimed]
m={
 "version":1,
 "setup_cmd":"/venv/bin/python -m pip install --quiet --no-index --find-links /opt/veriftools/wheels --target /verif/.deps icontract",
 "hooks":{"guard":"AUTOCARVER_VERIF","enable":"no build step: checks import /repo's working tree with AUTOCARVER_VERIF=1; all monitors (icontract invariant, wrappers, sys.monitoring probe) are installed from the harness, no guarded source lines exist","baseline_off_cmd":"cd /repo && /venv/bin/python -m pytest -ra -q -p no:cacheprovider --timeout=900 --continue-on-collection-errors -n 16","source_commits":[],"add_only":True},
 "engines":[{"name":"vlib","path":"vlib/","serves_properties":[c["property_id"] for c in checks],"kind_free_text":"runtime monitoring: real AutoCarver code executed under generated workloads in 16 sharded subprocesses; icontract class invariant on GroupedList, lock-step reference models, offline trace checkers over wrapped internals, boundary snapshots, differential/metamorphic pair oracles; three-valued verdicts"}],
 "checks":checks,
 "not_applicable":na,
 "notes":"exit 0 held on what was observed; exit 1 + VIOLATION line; exit 2 + INCONCLUSIVE line (a deciding monitor was not reached / too few non-trivial cases / a shard died). VERIF_SEED selects the workload seed. known_findings.json lists open and fixed findings."
}
json.dump(m,open('/verif/MANIFEST.json','w'),indent=1)
print(len(checks),"claimed",len(na),"n/a")
