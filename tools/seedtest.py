#!/usr/bin/env python3
"""Runs checks against /repo's HEAD with a patch applied, in a scratch worktree (never touches /repo's working tree).

usage: seedtest.py <patch.diff | commit:<sha> > [--reverse] [--tier quick] [--props C01,C02,...] [--seed N]
  commit:<sha> --reverse   re-introduces a repaired defect (reverse of a 'fix:' commit)
Prints one line per property: exit code (0 held / 1 violation / 2 inconclusive) and the first VIOLATION line.
"""
import json
import os
import subprocess
import sys
import tempfile
import time

VERIF = os.path.dirname(os.path.dirname(os.path.abspath(__file__)))
ALL = [f"C{i:02d}" for i in range(1, 20)]


def main():
    args = sys.argv[1:]
    what = args[0]
    reverse = "--reverse" in args
    tier = args[args.index("--tier") + 1] if "--tier" in args else "quick"
    props = args[args.index("--props") + 1].split(",") if "--props" in args else ALL
    seed = args[args.index("--seed") + 1] if "--seed" in args else "0"
    wt = tempfile.mkdtemp(prefix="vt_seed_", dir="/tmp")
    os.rmdir(wt)
    subprocess.run(["git", "-C", "/repo", "worktree", "add", "-q", "-f", "--detach", wt, "HEAD"], check=True)
    results = {}
    try:
        if what.startswith("commit:"):
            diff = subprocess.run(["git", "-C", "/repo", "show", "--format=", what.split(":", 1)[1]], capture_output=True, text=True, check=True).stdout
            p = subprocess.run(["git", "-C", wt, "apply"] + (["-R"] if reverse else []) + ["-"], input=diff, text=True, capture_output=True)
        else:
            p = subprocess.run(["git", "-C", wt, "apply"] + (["-R"] if reverse else []) + [os.path.abspath(what)], capture_output=True, text=True)
        if p.returncode != 0:
            print("PATCH DOES NOT APPLY:", p.stderr[:500])
            return 3
        for pid in props:
            t = time.time()
            env = dict(os.environ, VERIF_REPO=wt, VERIF_SEED=seed)
            r = subprocess.run([os.path.join(VERIF, "vcheck"), pid, tier], capture_output=True, text=True, env=env, cwd=VERIF)
            lines = r.stdout.splitlines()
            first = next((ln for ln in lines if ln.startswith("VIOLATION")), "")
            kinds = next((ln for ln in lines if ln.startswith("# violation kinds")), "")
            inc = next((ln for ln in lines if ln.startswith("INCONCLUSIVE")), "")
            results[pid] = {"exit": r.returncode, "first": first[:300], "kinds": kinds[:300], "inconclusive": inc[:200], "wall_s": round(time.time() - t, 1)}
            print(f"{pid} exit={r.returncode} {results[pid]['wall_s']}s {kinds or first[:200] or inc[:160]}", flush=True)
    finally:
        subprocess.run(["git", "-C", "/repo", "worktree", "remove", "--force", wt])
        # replay files written while testing a scratch tree are not kept
    print("SUMMARY " + json.dumps({k: v["exit"] for k, v in results.items()}))
    return 0


if __name__ == "__main__":
    sys.exit(main())
