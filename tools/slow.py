"""debug: time every case of a property (one shard).  usage: slow.py PID tier seed shard nshards"""
import sys, os, time
sys.path.insert(0, os.path.dirname(os.path.dirname(os.path.abspath(__file__))))
from vlib import env; env.bootstrap()
from vlib import monitors, runner
pid, tier, seed, shard, ns = sys.argv[1], sys.argv[2], int(sys.argv[3]), int(sys.argv[4]), int(sys.argv[5])
mod = runner.load_prop(pid); monitors.install_all(events=getattr(mod, "WANT_EVENTS", False))
tot = 0
for i in range(shard, mod.n_cases(tier), ns):
    t = time.time()
    try:
        r = mod.run_case(tier, seed, i)
        tags = r.get("tags")
    except Exception as e:
        tags = ["HARNESS " + repr(e)[:100]]
    dt = time.time() - t; tot += dt
    if dt > float(os.environ.get("SLOW", "3")):
        print(f"{i} {dt:.1f}s {tags}", flush=True)
print("shard", shard, "total", round(tot, 1))
