"""debug: list fit errors met by the shared object workload. usage: fiterr.py PROP n"""
import sys, os, traceback, collections
sys.path.insert(0, os.path.dirname(os.path.dirname(os.path.abspath(__file__))))
from vlib import env; env.bootstrap()
from vlib import gen, fitted, common
prop, n = sys.argv[1], int(sys.argv[2])
c = collections.Counter(); ex = {}
for i in range(n):
    rng = gen.rng_for(prop, 'quick', 0, i)
    hostile = {'C04': 0.45, 'C03': 0.3, 'C05': 0.3, 'C06': 0.5, 'C07': 0.2}[prop]
    case, which = fitted.object_case(rng, hostile=rng.random() < hostile)
    try:
        obj = common.make_estimator(case, which); common.fit_any(case, obj)
    except AssertionError as e:
        c[('assert', str(e)[:60])] += 1
    except Exception as e:
        tb = traceback.extract_tb(e.__traceback__)
        where = tuple(f"{fr.filename.split('/AutoCarver/')[-1]}:{fr.name}:{fr.lineno}" for fr in tb if "/AutoCarver/" in fr.filename)[-2:]
        k = (type(e).__name__, str(e)[:80], where, which, case.kind)
        c[k] += 1; ex.setdefault(k, (i, case.meta.get('ftype'), case.meta.get('columns') and {k: v.get('flavour', v.get('style')) for k, v in case.meta['columns'].items()}, case.config))
for k, v in c.most_common(): print(v, k, ex.get(k))
