#!/bin/bash
# confirm_seed.sh <dir with patch.diff + demo.py> : applies the patch on a scratch worktree of /repo HEAD,
# checks demo exit 1 with it / exit 0 without it and that the repository's own suite stays green with it.
d=$(realpath "$1"); wt=$(mktemp -d /tmp/vt_confirm_XXXX); rmdir $wt
git -C /repo worktree add -q -f --detach $wt HEAD || exit 3
mkdir -p $wt/SEED_X; cp $d/demo.py $wt/SEED_X/demo.py
cd $wt
/venv/bin/python SEED_X/demo.py >/tmp/scratch/demo_clean.out 2>&1; clean=$?
if ! git apply $d/patch.diff 2>/tmp/scratch/apply.err; then echo "RESULT apply=FAIL $(head -c 200 /tmp/scratch/apply.err)"; cd /; git -C /repo worktree remove --force $wt; exit 3; fi
/venv/bin/python SEED_X/demo.py >/tmp/scratch/demo_mut.out 2>&1; mut=$?
tests=$(/venv/bin/python -m pytest -q -p no:cacheprovider -n 16 --timeout=900 2>&1 | tail -1)
cd /; git -C /repo worktree remove --force $wt
echo "RESULT demo_clean=$clean demo_mutant=$mut tests='$tests'"
