#!/bin/bash
# matrix.sh <seed ids...> : all 19 quick checks against each seeded patch; writes seeded/<id>/matrix.txt
cd "$(dirname "$0")/.."
for id in "$@"; do
  [ -f seeded/$id/matrix.txt ] && continue
  python3 tools/seedtest.py seeded/$id/patch.diff > seeded/$id/matrix.txt.tmp 2>&1 && mv seeded/$id/matrix.txt.tmp seeded/$id/matrix.txt
done
