#!/usr/bin/env python3
"""Writes seeded/<id>/meta.json (what the change is, what it needs to manifest, what was run) and the DESIGN.md table.

The descriptions were written by the sub-agents that produced the changes (they saw the property text only, nothing of
/verif) and confirmed here with tools/confirm_seed.sh (demo exit 1 with the patch / 0 without, suite 102 passed with it).
"""
import json
import os
import re
import sys

VERIF = os.path.dirname(os.path.dirname(os.path.abspath(__file__)))
SEEDS = {
 "C01-A": ("nan_combinations gates the 'NaN alone' candidate on the first search's group count instead of the re-merged combination", "dropna=True, missing values, first search ends with exactly max_n_mod groups and the best placement is 're-merge two groups + NaN alone'"),
 "C01-B": ("dev 'distinct adjacent rates' test compares dev rates with the *train* rates shifted", "X_dev given and two adjacent groups of the top candidate with exactly equal target rates on X_dev"),
 "C02-A": ("nan_combinations allows NaN alone when the combination already has max_n_mod groups (<= instead of <)", "missing values, dropna=True, first search already uses max_n_mod groups, NaN with a distinct rate"),
 "C02-B": ("dev frequency test uses the train frequencies", "X_dev given, a group frequent on train but rarer than min_freq_mod on dev"),
 "C03-A": ("convert_to_values takes max(group[0], group[-1]) as leader of a merged quantile group", "one dominant value with a rare lower and an even rarer upper tail: last group's leader is not +inf"),
 "C03-B": ("_transform_quantitative drops index=X.index when re-assembling the transformed columns", "any frame whose index is not 0..n-1"),
 "C04-A": ("_check_new_values tests membership among group leaders only before replacing by the default group", "feature with rare modalities (default group) and a seen value that is not a leader (numeric-coded category, merged modality)"),
 "C04-B": ("format_quantiles stops adding digits at 6 decimals", "three or more boundaries sharing their first 7 significant digits (epoch timestamps), output_dtype='str'"),
 "C05-A": ("_transform_quantitative drops index=X.index", "new frame with a non-default index (slice, split, single sampled row)"),
 "C05-B": ("'Unexpected value' message built with ', '.join(unexpected)", "unseen non-string category in a feature without default group: TypeError instead of AssertionError"),
 "C06-A": ("numpy floats serialised through float(str(value))", "float32 column: quantiles lose precision on save, boundary rows change bucket on a float64 frame"),
 "C06-B": ("to_json() drops features_dropna", "carver fitted with dropna=False, then update_discretizer(f,'group',nan,g), then save/load"),
 "C07-A": ("X.copy(deep=False) when copy=True", "copy=True and a quantitative feature whose NaNs were merged: transform overwrites the caller's NaNs"),
 "C07-B": ("numpy.select result wrapped in a Series with a fresh RangeIndex before the NaN rows are labelled", "quantitative feature with NaN at transform time and an index other than 0..n-1 (shuffled rows mislabelled, subsets raise)"),
 "C08-A": ("over-represented values selected with > while the guard keeps >=", "a value observed on exactly len(X)*min_freq rows: RecursionError in fit"),
 "C08-B": ("_remove_feature pops input_dtypes only when the feature has a values_orders entry", "identifier-like qualitative feature dropped before it has an order: stays in input_dtypes / to_json"),
 "C09-A": ("find_common_modalities compares counts with int(min_freq*len)", "min_freq*n_rows not an integer and a bucket count in [floor, threshold)"),
 "C09-B": ("over-representation test is strict (>) at both sites", "a value whose frequency is exactly min_freq and on which no quantile point lands"),
 "C10-A": ("the multiprocessing branch of ContinuousDiscretizer.fit does not pass min_freq to fit_feature", "n_jobs>1, min_freq with round(1/min_freq) < 1/min_freq and a value with frequency in [min_freq, 1/q)"),
 "C10-B": ("QualitativeDiscretizer._prepare_data iterates self.features while removing from it", "two or more id-like qualitative features adjacent in list(set(features)) (depends on listing and PYTHONHASHSEED)"),
 "C11-A": ("target_rate groups with sort=False", "categories with exactly equal target rates separated by the only viable split: partition depends on row order"),
 "C11-B": ("convert_to_values uses any(which_to_keep) instead of len(...) > 0", "NaN merged with a single bucket whose upper bound is mapped to exactly 0.0 by an exact affine map"),
 "C12-A": ("classes sorted before being converted to str", "numeric labels whose numeric order differs from their string order (2, 10, 30)"),
 "C12-B": ("BaseCarver keeps the caller's ordinal_features list (no copy)", ">= 3 classes, an ordinal feature dropped for an earlier class: later classes carve it as non-ordinal"),
 "C13-A": ("GroupedList.group guards with discarded != kept instead of is_equal", "a raw float-NaN leader grouped with itself"),
 "C13-B": ("dict constructor adds the leader to its own group only when the member list is empty", "construction from a dict whose non-empty group does not repeat its leader"),
 "C14-A": ("quantitative_filter drops a rejected feature from the columns of the correlation matrix only", "thresh_corr < 1 and a chain a > b > c with b~a and c~b but not c~a: c left out without reason"),
 "C14-B": ("n_obs = notna(x).sum() in cramerv/tschuprowt measures", "inter-feature filter where the better-ranked feature has NaN: association under-estimated, correlated pair returned"),
 "C15-A": ("quantitative_filter loses .abs() on the correlation matrix", "thresh_corr < 1 and a feature highly correlated with a better one: negating it stops the filtering"),
 "C15-B": ("mode_measure compares floats to the mode with numpy.isclose", "a quantitative feature rescaled by a tiny positive factor (1e-9): discarded as constant"),
 "C16-A": ("summary() looks for the NaN sentinel among group leaders only", "quantitative feature with NaN merged into a group of real values (dropna=True)"),
 "C16-B": ("history combinations expand modalities through values_orders only (one comprehension level dropped)", "missing values with dropna=True and a first search that merged at least two base modalities"),
 "C17-A": ("transform re-instates NaN from the global dropna flag instead of features_dropna", "carver fitted with dropna=False, then update_discretizer(f,'group',nan,kept), then transform"),
 "C17-B": ("json 'order' written from content's key order", "update_discretizer(...,'replace',...) on a group that is not the last one, then to_json + load_carver"),
 "C18-A": ("first-level frequencies computed on X[feature] (NaN rows dropped from the denominator)", "large share of missing values and a leaf with frequency between min_freq*(1-nan_rate) and min_freq"),
 "C18-B": ("order.group(unknown, str_nan) dedented out of the loop over unknown values", "unknown_handling='drop' with two or more distinct unknown values"),
 "C19-A": ("index check becomes all(y.index.isin(X.index))", "a target with the same index labels as X in another order (shuffled, not re-indexed)"),
 "C19-B": ("BinaryCarver target check becomes all(v in (0,1))", "a single-class 0/1 target"),
 # round 3: one more change per property, written after the checks had been strengthened on rounds 1-2 (independent test)
 "C01-C": ("xagg_apply_order groups without sort=False: the missing-value search sees groups in alphabetical order", "dropna=True, missing values, >= 3 groups after the first search and an exact rate tie between groups that are alphabetical but not order neighbours"),
 "C02-C": ("MulticlassCarver.fit no longer forwards min_freq_mod to its BinaryCarvers", "MulticlassCarver with min_freq_mod > min_freq/2 and a class whose best grouping has a label in between"),
 "C03-C": ("target_rate rounds the per-modality mean to 4 decimals before sorting", "categorical feature whose modality rates differ by less than 1e-4 (continuous target of small magnitude)"),
 "C04-C": ("_transform_quantitative builds DataFrame(dict(all_transformed)) without index=X.index", "frame whose index is not 0..n-1"),
 "C05-C": ("transform_quantitative_feature skips the comparison with the last quantile but keeps the old 'any mask' guard", "quantitative feature fitted with a single bucket: raw numbers are returned"),
 "C06-C": ("summary() hides raw numeric values with isinstance(value, (float, int))", "qualitative feature fitted on an integer-dtype / float32 column: numpy scalars are listed before the round trip, hidden after it"),
 "C07-C": ("Discretizer.fit fits the qualitative sub-pipeline on the caller's X instead of the prepared copy", "Discretizer(copy=True) with a numeric-valued qualitative column holding NaN: caller's column overwritten"),
 "C08-C": ("BaseCarver.fit removes dropped features while iterating self.features", "two or more identifier-like qualitative columns dropped by the Discretizer in one carver fit: KeyError"),
 "C09-C": ("min_value_counts drops fillna(0) and uses a NaN-skipping min", "a quantile bucket holding no training row (spike at the maximum): empty bucket kept"),
 "C10-C": ("ChainedDiscretizer.fit replaces rare modalities over the whole frame instead of one column", "two chained features, a modality rare in one and frequent in the other"),
 "C11-C": ("format_quantiles stops adding digits at 6 decimals", "exact affine map with a large offset-to-spread ratio (x + 2^20 on a 2^-10 grid)"),
 "C12-C": ("MulticlassCarver.__init__ no longer forwards min_freq_mod to BaseCarver", "explicit min_freq_mod different from min_freq/2"),
 "C14-C": ("per-measure re-ranking sorts by the whole list of measure names", "two association measures evaluated for one feature type that rank the features differently"),
 "C16-C": ("history(feature) selects rows with a substring test on the feature name", "two carved features, one name containing the other"),
 "C17-C": ("update_discretizer recomputes labels_per_values only for mode='group'", "a 'replace' edit: labels, summary and the reloaded object disagree"),
 "C18-C": ("all features without a provided order share one GroupedList in ChainedDiscretizer.__init__", "two or more chained features without values_orders"),
 "C19-C": ("string check in _transform_quantitative uses infer_dtype in ('string','mixed')", "integer-valued quantitative column (no NaN) receiving a string at transform / in X_dev: UFuncTypeError"),
 # round 4: a fourth change per property, again independent of the checks (written after round 3's improvements)
 "C01-D": ("train minimum-frequency test uses > instead of >=", "best grouping with a group sitting exactly on min_freq_mod"),
 "C02-D": ("BinaryCarver._printer rounds the frequency column to 2 decimals", "a group whose frequency is less than 0.005 below a min_freq_mod on the 0.01 grid"),
 "C03-D": ("GroupedList built from an ndarray goes through numpy.unique (sorts)", "ordinal ranking handed over as a numpy array"),
 "C04-D": ("_get_labels_per_values updates the cached label dict in place", "output_dtype='float' object on which summary() is called before transform"),
 "C05-D": ("missing values detected with numpy.isnan", "quantitative column of object dtype (frames built from records, a None): TypeError"),
 "C06-D": ("dev frequency test returns a numpy.bool_ that ends in _history", "carver fitted with X_dev where a tested combination has a modality below min_freq_mod on dev: json.dumps(to_json()) raises"),
 "C07-D": ("_check_new_values replaces unseen values over the whole frame", "unseen value of a feature with a default group that is also present in another column"),
 "C08-D": ("ContinuousCarver._aggregator loses fill_value=[]", "ContinuousCarver with X_dev lacking a modality left alone in a train-viable group: TypeError"),
 "C09-D": ("Pool branch of ContinuousDiscretizer.fit does not pass min_freq", "n_jobs>=2 and min_freq whose inverse rounds down"),
 "C10-D": ("fit_feature returns the order only; results paired by position", "n_jobs>1 with imap_unordered completing out of submission order"),
 "C11-D": ("_transform_quantitative drops index=X.index", "non-default index"),
 "C12-D": ("_cast_features renames instead of duplicating when every feature has one casted column", "every raw feature kept by exactly one one-vs-rest carver"),
 "C13-D": ("GroupedList.sort keeps keys that are instances of (int, float) only", "second sort() of a list whose leaders became numpy.int64 through a first sort()"),
 "C14-D": ("pearson_filter passes a misnamed keyword: filters on Spearman's rho", "quantitative_filters=[pearson_filter], thresh_corr<1 and a pair on different sides of the threshold for r and rho"),
 "C15-D": ("iqr_measure uses a half-open interval", "user measure list [iqr_measure, kruskal_measure] with thresh_iqr<1 and an integer feature with mass on a Tukey fence: negation changes the selection"),
 "C16-D": ("summary() hides the default sentinel by label instead of by value", "qualitative feature with rare categories, string labels, __OTHER__ leader of its group"),
 "C17-D": ("numpy.select guard requires more than one mask", "edits merging a quantitative feature down to a single group: raw floats returned"),
 "C18-D": ("ChainedDiscretizer.fit writes regrouped values back through a fresh RangeIndex Series", "training frame whose index is not 0..n-1"),
 "C19-D": ("MulticlassCarver converts y to str before the generic target checks", "3-class target holding a NaN / None (no dev set): accepted"),
}


def main():
    rows = []
    for sid, (what, needs) in sorted(SEEDS.items()):
        d = os.path.join(VERIF, "seeded", sid)
        if not os.path.isdir(d):
            continue
        prop = sid.split("-")[0]
        matrix = {}
        mt = os.path.join(d, "matrix.txt")
        if os.path.exists(mt):
            for ln in open(mt):
                m = re.match(r"^(C\d+) exit=(\d)", ln)
                if m:
                    matrix[m.group(1)] = int(m.group(2))
        target = None
        tr = os.path.join(d, "target_result.txt")
        if os.path.exists(tr):
            target = open(tr).read().strip()
        caught_by = sorted(k for k, v in matrix.items() if v == 1)
        if target and f"{prop} exit=1" in target and prop not in caught_by:
            caught_by = sorted(caught_by + [prop])  # the matrix was run on an earlier version of the checks; the target was re-run on the final code
        meta = {
            "property": prop, "id": sid, "change": what, "needs_to_manifest": needs,
            "author": "independent sub-agent given only the property text and a scratch worktree",
            "confirmed": "tools/confirm_seed.sh: demo exit 0 on the clean tree, exit 1 with the patch, repository suite 102 passed with the patch",
            "ran": f"tools/seedtest.py seeded/{sid}/patch.diff (all 19 quick checks against a scratch worktree of /repo HEAD with the patch applied)",
            "target_check_result_on_final_code": target,
            "matrix_run_at_verif_commit": "bfbd825 (rounds 1-2) / 82b1b94 (round 3); the target check was re-run on the final code",
            "quick_checks_exit_codes": matrix,
            "caught_by": caught_by,
        }
        json.dump(meta, open(os.path.join(d, "meta.json"), "w"), indent=1)
        rows.append((sid, what, needs, caught_by, target))
    out = ["| seeded change | what | needs | quick checks that exit 1 |", "|---|---|---|---|"]
    for sid, what, needs, caught, target in rows:
        c = ", ".join(caught) if caught else "none -- not detected (see 7.3)"
        out.append(f"| {sid} | {what} | {needs} | {c} |")
    print("\n".join(out))


if __name__ == "__main__":
    main()
