#!/usr/bin/env python3
"""Re-derives the commit hash of every fixed finding from its subject line (hashes change when /repo history is rebased)."""
import json, subprocess, re
p = '/verif/known_findings.json'
d = json.load(open(p))
log = subprocess.run(['git', '-C', '/repo', 'log', '--format=%h\t%s'], capture_output=True, text=True).stdout.splitlines()
subj = {l.split('\t')[0]: l.split('\t', 1)[1] for l in log}
SUBJECTS = {
 'F6': 'GroupedList.get_group returns', 'F1': 'carvers keep grouped modalities', 'F16': 'absent from X_dev', 'F17': 'does not crash when a modality',
 'F2': 'quantile labels use', 'F3': 'removes duplicated quantiles', 'F5': 'passes min_freq_mod', 'F11': 'keeps its history', 'F4': 'at least as frequent as min_freq',
 'F12': 'summary(feature) only lists', 'F7': 'update_discretizer accepts string', 'F18': 'summary() shows missing values grouped', 'F14': 'several unknown values',
 'F13': 'nothing to group', 'F9': 'different lengths', 'F8': 'second fit is refused', 'F10': 'both quantitative and qualitative', 'F22': 'reports missing columns',
 'F21': 'refuses strings in a quantitative', 'F19': 'validates its inputs', 'F20': 'absent from the provided ranking', 'F25': 'replace_group_leader keeps the group', 'F26': 'keeps raw columns when every feature',
}
for f in d['findings']:
    if f.get('status') != 'fixed':
        continue
    key = SUBJECTS[f['id']]
    new = next(h for h, s in subj.items() if key in s)
    old = f.get('commit')
    f['commit'] = new
    f['subject'] = subj[new]
    if old:
        f['fixed'] = f['fixed'].replace(old, new)
json.dump(d, open(p, 'w'), indent=1)
print('refreshed', sum(1 for f in d['findings'] if f.get('status') == 'fixed'), 'fixed findings')
