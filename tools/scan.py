"""debug: run cases in-process and print those whose tags/status match.  usage: scan.py PID tier seed start stop substr"""
import sys, os
sys.path.insert(0, os.path.dirname(os.path.dirname(os.path.abspath(__file__))))
from vlib import env; env.bootstrap()
from vlib import monitors, runner
pid, tier, seed, a, b, sub = sys.argv[1], sys.argv[2], int(sys.argv[3]), int(sys.argv[4]), int(sys.argv[5]), sys.argv[6]
mod = runner.load_prop(pid); monitors.install_all(events=getattr(mod, "WANT_EVENTS", False))
for i in range(a, b):
    monitors.reset_case()
    try:
        r = mod.run_case(tier, seed, i)
    except Exception as e:
        import traceback; print(i, "HARNESS", traceback.format_exc()[-600:]); continue
    txt = repr(r.get("tags")) + repr(r.get("status")) + ("GLFIRED" if monitors.GL_WITNESSES else "")
    if sub in txt:
        print(i, r.get("status"), r.get("tags"), [v.get("msg") for v in r.get("violations", [])][:2], monitors.GL_WITNESSES[:1])
